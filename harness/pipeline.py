"""Generic pipelines: cases -> real tool -> observations -> TLC judge -> verdicts."""
import os, json, shutil, time, re
import core, render
from core import log, Broken


def typecheck_gate(batch, dirs, allow=()):
    """The rendered template packages must type-check (else the renderer is wrong: exit 2)."""
    chunk = 250
    bad = {}
    for i in range(0, len(dirs), chunk):
        ds = dirs[i:i + chunk]
        rc, so, se, dt = core.run(['go', 'build', '-tags', 'wireinject'] + ['./' + d + '/...' for d in ds], cwd=batch.root, timeout=1200)
        if rc != 0:
            cur = None
            for line in se.splitlines():
                m = re.match(r'# %s/(c\d{5})' % re.escape(render.MOD), line)
                if m:
                    cur = m.group(1)
                    continue
                if cur:
                    bad.setdefault(cur, []).append(line)
            if not bad:
                raise Broken('template type-check failed: ' + se[-2000:])
    bad = {d: v for d, v in bad.items() if batch.by_dir[d].case['key'] not in allow}
    if bad:
        d = sorted(bad)[0]
        raise Broken('rendered template of %s (%s) does not type-check: %s' % (batch.by_dir[d].case['key'], d, '\n'.join(bad[d][:5])))


def judge_static(sc, cases_path, obs, name='judge'):
    """TLC decides every observation. Returns set of bad observation indices (0-based)."""
    obs_path = sc.path(name + '.obs.ndjson')
    with open(obs_path, 'w') as f:
        for o in obs:
            f.write(json.dumps(o) + '\n')
    if not obs:
        return set(), 0
    cfg = 'CONSTANTS\n CasesFile = "%s"\n ObsFile = "%s"\n' % (cases_path, obs_path)
    rc, out, dt = core.tlc(sc, 'WireJudge', None, cfg, workers=1, timeout=1800)
    judged = core.tlc_prints(out, 'JUDGED')
    bad = core.tlc_prints(out, 'BADOBS')
    if rc != 0 or not judged or int(judged[0]) != len(obs):
        raise Broken('judge TLC run failed rc=%s: %s' % (rc, out[-3000:]))
    idx = set(int(x) - 1 for x in bad)
    log('judge: %d observations, %d rejected (%.1fs)' % (len(obs), len(idx), dt))
    return idx, len(obs)


def judge_traces(sc, cases_path, trace_path, switches, name='WireInjectTrace'):
    """TLC validates every recorded run-time trace against WireInject.
    Returns (rejects [(line, ci, sched, ev, phase)], n_traces, n_events, states)."""
    n_events = 0
    n_traces = 0
    with open(trace_path) as f:
        for line in f:
            n_events += 1
            if '"e":"reset"' in line:
                n_traces += 1
    if n_events == 0:
        return [], 0, 0, 0
    w, e, c = switches
    cfg = ('SPECIFICATION TSpec\nCONSTANTS\n CheckW = %s\n CheckE = %s\n CheckC = %s\n CasesFile = "%s"\n TraceFile = "%s"\n'
           'INVARIANTS TypeOK AtMostOnce ReleaseIsReversePrefix NoCleanupWhileRunning AllReleasedWhenDone AcquiredRan\n'
           'POSTCONDITION PostOK\nCHECK_DEADLOCK FALSE\n') % (
        'TRUE' if w else 'FALSE', 'TRUE' if e else 'FALSE', 'TRUE' if c else 'FALSE', cases_path, trace_path)
    rc, out, dt = core.tlc(sc, name, None, cfg, workers=1, timeout=3600)
    cons = core.tlc_prints(out, 'CONSUMED')
    if rc != 0 or not cons:
        raise Broken('trace validation TLC run failed rc=%s: %s' % (rc, out[-3000:]))
    a, b = [int(x) for x in re.findall(r'\d+', cons[0])]
    if a != b or b != n_events:
        raise Broken('trace not consumed: %s of %s events' % (a, n_events))
    rejects = []
    for r in core.tlc_prints(out, 'REJECT'):
        m = re.match(r'(\d+), (\d+), (\d+), "(\w+)", "(\w+)"', r)
        rejects.append((int(m.group(1)), int(m.group(2)), int(m.group(3)), m.group(4), m.group(5)))
    gen, dist = core.tlc_stats(out)
    log('trace validation: %d traces / %d events, %d rejected (%.1fs)' % (n_traces, n_events, len(rejects), dt))
    return rejects, n_traces, n_events, dist


class Outcome:
    def __init__(self):
        self.bad = []          # list of dicts: {case, kind, detail}
        self.n_cases = 0
        self.n_obs = 0
        self.n_traces = 0
        self.n_events = 0
        self.states = 0
        self.accepted = 0
        self.rejected = 0
        self.samples = []


def run_cases(sc, wire, cases, name='b', runtime=True, check=False, show=False, build=True, notes=False, single=False, collect_gen=False, switches=(True, True, True),
              allow_typeerr=(), gate=True, gen_args=(), tool_timeout=300):
    """Full pipeline on a list of cases. Returns Outcome (violations NOT yet confirmed)."""
    out = Outcome()
    out.n_cases = len(cases)
    if not cases:
        return out
    b = core.Batch(sc, cases, name=name, runtime=runtime)
    dirs = [c.dir for c in b.cases]
    if gate:
        typecheck_gate(b, dirs, allow_typeerr)
    cases_path = sc.path(name + '.cases.ndjson')
    b.write_cases(cases_path)
    tr = core.ToolRun(b, wire, 'gen', timeout=tool_timeout, args=gen_args, chunk=1 if single else 150)
    obs = tr.run_all()
    wrote = [d for d in dirs if obs[d]['wrote']]
    if build and wrote:
        br = core.go_build(b, wrote)
        for d in wrote:
            obs[d]['built'] = 'fail' if br[d] else 'ok'
            if br[d]:
                obs[d]['build_err'] = br[d][:1500]
    allobs = [obs[d] for d in dirs]
    if check:
        tc = core.ToolRun(b, wire, 'check', timeout=tool_timeout)
        cobs = tc.run_all()
        allobs += [cobs[d] for d in dirs]
    if show:
        ts = core.ToolRun(b, wire, 'show', timeout=tool_timeout)
        sobs = ts.run_all()
        allobs += [sobs[d] for d in dirs]
    if notes:
        # value fidelity: run the accepted packages, collect the "note" events (home evaluation, injector results)
        good = [d for d in wrote if obs[d]['built'] == 'ok']
        if good:
            trace = core.drive(b, good, name=name + 'val')
            per = {}
            for line in open(trace):
                e_ = json.loads(line)
                if e_['e'] == 'note':
                    per.setdefault(e_['ci'], {'home': [], 'inj': []})[e_['p']].append(e_['v'])
            for ci, v in sorted(per.items()):
                c = b.cases[ci - 1]
                allobs.append({'ci': ci, 'key': c.case['key'], 'cmd': 'value', 'home': v['home'], 'inj': v['inj'],
                               'failed': False, 'wrote': False, 'panic': False, 'hang': False, 'diags': [], 'built': 'ok', 'frame_ok': True})
    badidx, n = judge_static(sc, cases_path, allobs, name=name + '-judge')
    out.n_obs = n
    for i in sorted(badidx):
        o = allobs[i]
        out.bad.append({'case': b.cases[o['ci'] - 1].case, 'kind': 'tool:' + o['cmd'], 'detail': o})
    out.work = {obs[d]['key']: (obs[d]['work_acyclic'], obs[d]['work_solve']) for d in dirs if obs[d].get('work_acyclic', -1) >= 0}
    out.gen = {}
    if collect_gen:
        for d in wrote:
            try:
                out.gen[obs[d]['key']] = (b.by_dir[d].pkgname, open(os.path.join(b.root, d, 'wire_gen.go'), errors='replace').read())
            except OSError:
                pass
    out.accepted = sum(1 for d in dirs if obs[d]['wrote'])
    out.rejected = sum(1 for d in dirs if obs[d]['failed'])
    for d in dirs[:2]:
        o = dict(obs[d]); o.pop('diags', None)
        out.samples.append({'key': obs[d]['key'], 'observation': {k: obs[d][k] for k in ('cmd', 'failed', 'wrote', 'built')},
                            'diag_classes': [x['c'] for x in obs[d]['diags']]})
    if runtime:
        good = [d for d in wrote if obs[d]['built'] == 'ok']
        if good:
            trace = core.drive(b, good, name=name + 'drv')
            rej, nt, ne, st = judge_traces(sc, cases_path, trace, switches)
            # order of provider calls in the first clean call of every injector (compared with WireAnalyze's plan, informational)
            out.ran = {}
            curk, ncall = None, 0
            for line in open(trace):
                e_ = json.loads(line)
                if e_['e'] == 'reset':
                    curk = (e_['key'], e_['inj']) if e_['sched'] == 1 else None
                    ncall = 0
                elif e_['e'] == 'enter':
                    ncall += 1
                elif e_['e'] == 'call' and curk and ncall == 1 and curk not in getattr(out, '_seen_fail', set()):
                    out.ran.setdefault(curk, []).append(e_['p'])
            out.n_traces, out.n_events, out.states = nt, ne, st
            lines = None
            for (ln, ci, sched, ev, ph) in rej:
                if lines is None:
                    lines = open(trace).read().splitlines()
                # the offending trace: from its reset to the next reset
                s = ln - 1
                while s > 0 and '"e":"reset"' not in lines[s]:
                    s -= 1
                e = ln
                while e < len(lines) and '"e":"reset"' not in lines[e]:
                    e += 1
                out.bad.append({'case': b.cases[ci - 1].case, 'kind': 'trace',
                                'detail': {'sched': sched, 'event': ev, 'phase': ph, 'at': ln - s,
                                           'trace': [json.loads(x) for x in lines[s:e]]}})
            # a readable sample of an accepted trace
            if nt and len(out.samples) < 4:
                with open(trace) as f:
                    evs = []
                    for line in f:
                        e_ = json.loads(line)
                        if e_['e'] == 'reset' and evs:
                            break
                        evs.append({k: e_[k] for k in ('e', 'p', 'args', 'ok', 'v', 'err') if e_[k] not in ('', [], None)})
                out.samples.append({'key': json.loads(open(trace).readline())['key'], 'trace': evs[:12]})
    shutil.rmtree(b.root, ignore_errors=True)
    return out
