#!/usr/bin/env python3
"""Regenerates /verif/MANIFEST.json from the property registry (harness/props.py) and texts below."""
import json, os, sys
sys.path.insert(0, os.path.dirname(os.path.abspath(__file__)))
import props

V = os.path.dirname(os.path.dirname(os.path.abspath(__file__)))
allp = [json.loads(l) for l in open(os.path.join(V, 'properties.jsonl'))]

TEXT = props.TEXT if hasattr(props, 'TEXT') else {}
hooks_commits = []
hp = os.path.join(V, 'hooks_commits.txt')
if os.path.exists(hp):
    hooks_commits = [l.split()[0] for l in open(hp) if l.strip()]

checks = []
for p in allp:
    pid = p['id']
    if pid not in props.PROPS:
        continue
    sp = props.PROPS[pid]
    t = TEXT.get(pid, {})
    checks.append({
        'property_id': pid,
        'quick_cmd': './check %s quick' % pid,
        'thorough_cmd': './check %s thorough' % pid,
        'evidence_file': 'evidence/%s.json' % pid,
        'replay_cmd_template': './check --replay {path}',
        'engine': 'tlc-conformance',
        'level_claimed': {'category': sp['level'], 'text': t.get('level', ''), 'design_ref': 'DESIGN.md section 6, ' + pid},
        'level_note': t.get('note', 'trusted: TLC, the Go toolchain, the renderer (a template that fails to type-check is exit 2), the stderr tokeniser'),
        'technique': t.get('technique', 'TLA+ spec (WireSem/WireInject) + TLC-enumerated cases replayed into the real wire binary + TLC trace/observation validation'),
    })
na = [{'property_id': p['id'], 'reason': 'check not built yet (applicable; see DESIGN.md section 6)'} for p in allp if p['id'] not in props.PROPS]
m = {
    'version': 1,
    'setup_cmd': 'sh ./setup.sh',
    'hooks': {'guard': 'verif', 'enable': 'go build -tags verif -o <scratch>/wire ./cmd/wire   (done by every check from /repo\'s working tree)',
              'baseline_off_cmd': 'cd /repo && GOFLAGS=-mod=mod GOPROXY=off GOSUMDB=off GOTOOLCHAIN=local go test -vet=off -count=1 ./...',
              'source_commits': hooks_commits, 'add_only': True},
    'engines': [{'name': 'tlc-conformance', 'path': 'harness/verif.py', 'serves_properties': [c['property_id'] for c in checks],
                 'kind_free_text': 'explicit TLA+ specifications (spec/*.tla) checked with TLC; TLC enumerates bounded families of abstract Wire programs / fault schedules / command histories, a renderer turns them into Go packages, the real wire binary built from /repo is run on them, generated injectors are executed with instrumented providers, and every recorded observation and run-time trace is validated by TLC against the specification'}],
    'checks': checks,
    'notes': 'see DESIGN.md; ./check <ID> <quick|thorough>; VERIF_SEED selects samples; exit 2 = check could not run (never a violation)',
    'not_applicable': na,
}
json.dump(m, open(os.path.join(V, 'MANIFEST.json'), 'w'), indent=1)
print('checks:', [c['property_id'] for c in checks], 'n/a:', len(na))
