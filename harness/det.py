"""C16: determinism and independence of location / dependency layout.
TLC (WireConfig) enumerates the configuration lattice; every configuration is set up for real
(module, module+vendor, GOPATH, GOPATH+vendor; two checkout locations; four ways of naming the
package; alone or with other packages), wire gen runs in it, and the bytes of wire_gen.go are
recorded; TLC (WireConfigJudge) decides."""
import os, sys, json, shutil, hashlib, re, socket, subprocess
from concurrent.futures import ThreadPoolExecutor
import core
from core import log, Broken

MODP = 'example.com/det'

UTIL = '''package util

type %(T)s struct{ Name string }

func New%(T)s(name string) *%(T)s { return &%(T)s{Name: name} }
'''

SHARED = '''package shared

import (
	"time"

	"github.com/google/wire"
)

type Inner struct{ Host string }
type Cfg struct {
	In      Inner
	Timeout time.Duration
	Tags    map[string][]string
}

// Set is used by several packages of one invocation: its value expression is one AST shared by all of them.
var Set = wire.NewSet(wire.Value(Cfg{In: Inner{Host: "h"}, Timeout: 5 * time.Second, Tags: map[string][]string{"k": {"v"}}}))
'''

MANY_LIB = '''package app

import (
	"context"
	"flag"
	"fmt"
	"io"
	"strings"
	"time"

	"github.com/google/subcommands"

	xutil "example.com/det/x/util"
	yutil "example.com/det/y/util"
)

type Config struct {
	Name    string
	Retries int
	Timeout time.Duration
	Tags    []string
	Limits  map[string]int
}

type Logger struct{ W io.Writer }
type Server struct {
	Cfg *Config
	Log *Logger
	X   *xutil.Alpha
	Y   *yutil.Beta
	Cmd *subcommands.Commander
}
type Client struct {
	Srv *Server
	Ctx context.Context
}
type Greeter interface{ Greet() string }
type English struct{ Who string }

func (e English) Greet() string { return "hello " + e.Who }

func NewConfig(name string, retries int, timeout time.Duration, tags []string, limits map[string]int) *Config {
	return &Config{name, retries, timeout, tags, limits}
}
func NewLogger(w io.Writer) (*Logger, func()) { return &Logger{w}, func() {} }
func NewFlagSet(name string) *flag.FlagSet { return flag.NewFlagSet(name, flag.ContinueOnError) }
func NewServer(c *Config, l *Logger, x *xutil.Alpha, y *yutil.Beta, cmd *subcommands.Commander) (*Server, func(), error) {
	if c == nil {
		return nil, nil, fmt.Errorf("nil config")
	}
	return &Server{c, l, x, y, cmd}, func() {}, nil
}
func NewClient(ctx context.Context, s *Server) (*Client, error) { return &Client{s, ctx}, nil }
func NewEnglish(name string) English                             { return English{strings.ToUpper(name)} }
type Description string

func Describe(g Greeter, c *Client) Description { return Description(g.Greet() + c.Srv.Cfg.Name) }
'''

MANY_WIRE = '''//go:build wireinject
// +build wireinject

package app

import (
	"context"
	_ "embed"
	"io"
	"os"
	"time"

	"github.com/google/subcommands"
	"github.com/google/wire"

	xutil "example.com/det/x/util"
	yutil "example.com/det/y/util"
)

// helper declarations that wire must copy into the generated file
var defaultTags = []string{"a", "b"}

func defaultLimits() map[string]int { return map[string]int{"x": 1, "y": 2} }

type localKey struct{ k string }

var ConfigSet = wire.NewSet(NewConfig, wire.Value("svc"), wire.Value(3), wire.Value(2*time.Second),
	wire.Value([]string{"t1", "t2"}), wire.Value(map[string]int{"m": 1}))
var LogSet = wire.NewSet(NewLogger, wire.InterfaceValue(new(io.Writer), os.Stdout))
var UtilSet = wire.NewSet(xutil.NewAlpha, yutil.NewBeta)
var CmdSet = wire.NewSet(subcommands.NewCommander, NewFlagSet)
var ServerSet = wire.NewSet(ConfigSet, LogSet, UtilSet, CmdSet, NewServer)

func InitConfig() *Config {
	wire.Build(ConfigSet)
	return nil
}

func InitServer() (*Server, func(), error) {
	wire.Build(ServerSet)
	return nil, nil, nil
}

func InitClient(ctx context.Context) (*Client, func(), error) {
	wire.Build(ServerSet, NewClient)
	return nil, nil, nil
}

func InitGreeter(name string) Greeter {
	wire.Build(NewEnglish, wire.Bind(new(Greeter), new(English)))
	return nil
}
'''

MANY_WIRE2 = '''//go:build wireinject
// +build wireinject

package app

import (
	"context"

	"github.com/google/wire"
)

func InitDescription(ctx context.Context) (Description, func(), error) {
	wire.Build(ServerSet, NewClient, wire.Struct(new(English), "Who"), wire.Bind(new(Greeter), new(English)), Describe)
	return "", nil, nil
}

func InitLogger() (*Logger, func()) {
	wire.Build(LogSet)
	return nil, nil
}

// moreHelper is a non-injector declaration of the second injector file.
var moreHelper = "more"
'''
MANY_WIRE3 = '''//go:build wireinject
// +build wireinject

package app

import "github.com/google/wire"

func InitLoggerAgain() (*Logger, func()) {
	wire.Build(LogSet)
	return nil, nil
}

// thirdHelper is a non-injector declaration of the third injector file.
var thirdHelper = 3
'''

SMALL_LIB = '''package app

type Foo struct{ N int }
type Bar struct{ F Foo }

func NewFoo() Foo      { return Foo{1} }
func NewBar(f Foo) Bar { return Bar{f} }
'''
SMALL_WIRE = '''//go:build wireinject
// +build wireinject

package app

import "github.com/google/wire"

func InitBar() Bar {
	wire.Build(NewFoo, NewBar)
	return Bar{}
}
'''

VALUES_LIB = '''package app

import "time"

type A struct{ V int }
type B struct{ V string }
type C struct{ V time.Duration }
type D struct{ V []int }
type E struct{ V map[string]bool }
type F struct{ V *A }
type G struct{ V [2]string }
type H struct{ V float64 }
type All struct {
	A A
	B B
	C C
	D D
	E E
	F F
	G G
	H H
}
'''
VALUES_WIRE = '''//go:build wireinject
// +build wireinject

package app

import (
	"time"

	sharedpkg "example.com/det/shared"
	"github.com/google/wire"
	_ "github.com/pmezard/go-difflib/difflib"
)

// shared has the name of the package of the shared set: the generated file must import that package under another name here
var shared = A{V: 41}

func InitAll() All {
	wire.Build(wire.Struct(new(All), "*"),
		wire.Value(A{V: 1}), wire.Value(B{V: "b"}), wire.Value(C{V: time.Minute}), wire.Value(D{V: []int{1, 2}}),
		wire.Value(E{V: map[string]bool{"k": true}}), wire.Value(F{V: &shared}), wire.Value(G{V: [2]string{"x", "y"}}), wire.Value(H{V: 1.5}))
	return All{}
}

func InitSome() (A, B) {
	return InitA(), InitB()
}

func InitA() A {
	wire.Build(wire.Value(A{V: 2}))
	return A{}
}

func InitB() B {
	wire.Build(wire.Value(B{V: "bb"}))
	return B{}
}

func InitCfg() sharedpkg.Cfg {
	wire.Build(sharedpkg.Set)
	return sharedpkg.Cfg{}
}
'''
# the other packages of a shared invocation use the same type names, value expressions and imports as the programs under test:
# whatever state the generator keeps between packages (names, value variables, import aliases) would show in app's output
OTHER = '''package %(name)s

import (
	"time"

	xutil "%(modp)s/x/util"
)

type A struct{ V int }
type B struct{ V string }
type T struct {
	A A
	B B
	D time.Duration
	U *xutil.Alpha
}

func New(a A, b B, d time.Duration, u *xutil.Alpha) T { return T{a, b, d, u} }
'''
OTHER_WIRE = '''//go:build wireinject
// +build wireinject

package %(name)s

import (
	"time"

	"github.com/google/wire"
	"%(modp)s/shared"
	xutil "%(modp)s/x/util"
)

func Init() T {
	wire.Build(New, wire.Value(A{V: 9}), wire.Value(B{V: "o"}), wire.Value(time.Second), xutil.NewAlpha, wire.Value("name"))
	return T{}
}

func InitCfg() shared.Cfg {
	wire.Build(shared.Set)
	return shared.Cfg{}
}
'''

PROGRAMS = {
    'many': {'lib.go': MANY_LIB, 'wire.go': MANY_WIRE, 'wire_more.go': MANY_WIRE2, 'wire_third.go': MANY_WIRE3},
    'small': {'lib.go': SMALL_LIB, 'wire.go': SMALL_WIRE},
    'values': {'lib.go': VALUES_LIB, 'wire.go': VALUES_WIRE},
}


def modcache():
    rc, so, se, dt = core.run(['go', 'env', 'GOMODCACHE'])
    return so.strip()


def write(path, txt):
    os.makedirs(os.path.dirname(path), exist_ok=True)
    with open(path, 'w') as f:
        f.write(txt)


def setup(root, program, cfg):
    """lay out the program for one configuration; returns (project dir, env, wire cwd, pattern)"""
    layout = cfg['layout']
    loc = cfg['loc']
    base = os.path.join(root, loc)
    sub = os.path.join(modcache(), 'github.com/google/subcommands@v1.2.0')
    env = dict(core.GOENV)
    if layout.startswith('gopath'):
        gopath = os.path.join(base, 'gp')
        proj = os.path.join(gopath, 'src', MODP)
        env.update(GOPATH=gopath, GO111MODULE='off', GOFLAGS='')
        dep = os.path.join(proj, 'vendor') if layout == 'gopath-vendor' else (os.path.join(gopath, 'src', 'vendor') if layout == 'gopath-rootvendor' else os.path.join(gopath, 'src'))
        os.makedirs(os.path.join(dep, 'github.com/google/wire'), exist_ok=True)
        shutil.copy(os.path.join(core.REPO, 'wire.go'), os.path.join(dep, 'github.com/google/wire', 'wire.go'))
        os.makedirs(os.path.join(dep, 'github.com/google/subcommands'), exist_ok=True)
        shutil.copy(os.path.join(sub, 'subcommands.go'), os.path.join(dep, 'github.com/google/subcommands', 'subcommands.go'))
        dl = os.path.join(modcache(), 'github.com/pmezard/go-difflib@v1.0.0/difflib')
        os.makedirs(os.path.join(dep, 'github.com/pmezard/go-difflib/difflib'), exist_ok=True)
        shutil.copy(os.path.join(dl, 'difflib.go'), os.path.join(dep, 'github.com/pmezard/go-difflib/difflib', 'difflib.go'))
    else:
        proj = os.path.join(base, 'proj')
        os.makedirs(proj, exist_ok=True)
        write(os.path.join(proj, 'go.mod'), 'module %s\n\ngo 1.19\n\nrequire (\n\tgithub.com/google/subcommands v1.2.0\n\tgithub.com/google/wire v0.0.0\n\tgithub.com/pmezard/go-difflib v1.0.0\n)\n\nreplace github.com/google/wire => %s\n' % (MODP, core.REPO))
        shutil.copy(os.path.join(core.REPO, 'go.sum'), os.path.join(proj, 'go.sum'))
    for name, txt in PROGRAMS[program].items():
        write(os.path.join(proj, 'app', name), txt)
    write(os.path.join(proj, 'shared', 'shared.go'), SHARED)
    write(os.path.join(proj, 'x', 'util', 'util.go'), UTIL % {'T': 'Alpha'})
    write(os.path.join(proj, 'y', 'util', 'util.go'), UTIL % {'T': 'Beta'})
    if cfg['company'] == 'with-others':
        for n in ('aaa', 'mmm', 'zzz'):
            write(os.path.join(proj, n, 'lib.go'), OTHER % {'name': n, 'modp': MODP})
            write(os.path.join(proj, n, 'wire.go'), OTHER_WIRE % {'name': n, 'modp': MODP})
    if layout == 'module-vendor':
        rc, so, se, dt = core.run(['go', 'mod', 'vendor'], cwd=proj, env=env, timeout=300)
        if rc != 0:
            raise Broken('go mod vendor failed: ' + se[-1500:])
        env['GOFLAGS'] = '-mod=vendor'
    inv = cfg['invoke']
    if inv == 'dot':
        cwd, pats = os.path.join(proj, 'app'), ['.']
    elif inv == 'subdir':
        cwd, pats = proj, ['./app']
    elif inv == 'dotdotdot':
        cwd, pats = proj, ['./...']
    else:
        cwd, pats = proj, [MODP + '/app']
    if cfg['company'] == 'with-others' and inv in ('subdir', 'importpath'):
        pats = ([MODP + '/aaa'] if inv == 'importpath' else ['./aaa']) + pats + ([MODP + '/zzz'] if inv == 'importpath' else ['./zzz'])
    return proj, env, cwd, pats


def run_config(wire, root, program, cfg):
    proj, env, cwd, pats = setup(root, program, cfg)
    targs = ['-tags', cfg['tags']] if cfg.get('tags') else []
    rc, so, se, dt = core.run([wire, 'gen'] + targs + pats, cwd=cwd, env=env, timeout=300)
    out = os.path.join(proj, 'app', 'wire_gen.go')
    data = open(out, 'rb').read() if os.path.exists(out) else b''
    txt = data.decode('utf-8', 'replace')
    leak = (root in txt) or ('/tmp/' in txt) or (socket.gethostname() in txt and len(socket.gethostname()) > 3) \
        or bool(re.search(r'20\d\d-\d\d-\d\d|\d\d:\d\d:\d\d', txt)) or ('vendor/' in txt)
    return {'program': program + ('+tags' if cfg.get('tags') else ''), 'config': cfg, 'exit': rc, 'digest': hashlib.sha256(data).hexdigest() if data else 'none',
            'leak': bool(leak), 'bytes': len(data), 'stderr': se[-400:] if rc != 0 else ''}


def run(ctx, reps, sample=None):
    ctx.build()
    sc = ctx.sc
    mod = open(os.path.join(core.SPEC, 'WireConfig.tla')).read()
    cfg = 'INIT Init\nNEXT Next\nCONSTANTS\n Reps = %d\nINVARIANT Emit\nCHECK_DEADLOCK FALSE\n' % reps
    rc, out, dt = core.tlc(sc, 'WireConfig', None, cfg, workers=1, timeout=600)
    configs = []
    for line in out.splitlines():
        if line.startswith('"{'):
            configs.append(json.loads(json.loads(line)))
    if rc != 0 or not configs:
        raise Broken('WireConfig enumeration failed: ' + out[-2000:])
    total = len(configs)
    configs.sort(key=lambda c: json.dumps(c, sort_keys=True))
    jobs = [(p, c) for p in sorted(PROGRAMS) for c in configs]
    if sample and len(jobs) > sample:
        import random
        jobs = random.Random(ctx.seed).sample(jobs, sample)
        # every program keeps at least one run of every layout
        have = {(p, c['layout']) for p, c in jobs}
        for p in sorted(PROGRAMS):
            for c in configs:
                if (p, c['layout']) not in have:
                    jobs.append((p, c)); have.add((p, c['layout']))
    log('TLC enumerated %d configurations; running %d (program, configuration) pairs' % (total, len(jobs)))
    root = sc.path('det')

    def one(ij):
        i, (p, c) = ij
        return run_config(ctx.wire, os.path.join(root, 'r%04d' % i), p, c)
    with ThreadPoolExecutor(8) as ex:
        obs = list(ex.map(one, enumerate(jobs)))
    shutil.rmtree(root, ignore_errors=True)
    path = sc.path('det.obs.ndjson')
    with open(path, 'w') as f:
        for o in obs:
            f.write(json.dumps(o) + '\n')
    rc, out, dt = core.tlc(sc, 'WireConfigJudge', None, 'CONSTANTS\n ObsFile = "%s"\n' % path, workers=1, timeout=600)
    judged = core.tlc_prints(out, 'JUDGED')
    if rc != 0 or not judged or int(judged[0]) != len(obs):
        raise Broken('WireConfigJudge failed: ' + out[-2000:])
    bad = [int(x) - 1 for x in core.tlc_prints(out, 'BADOBS')]
    cov = ctx.res.cov
    cov['evaluations'] += len(obs)
    cov['configurations'] = total
    cov['programs'] = len(PROGRAMS)
    cov['distinct_nontrivial'] = len({json.dumps([o['program'], {k: v for k, v in o['config'].items() if k != 'rep'}], sort_keys=True) for o in obs})
    cov['digests'] = {p: sorted({o['digest'][:12] for o in obs if o['program'] == p}) for p in sorted({o['program'] for o in obs})}
    cov['samples'] += [{k: o[k] for k in ('program', 'config', 'exit', 'digest', 'leak', 'bytes')} for o in obs[:3]]
    log('C16 judge: %d runs, %d rejected' % (len(obs), len(bad)))
    seen = set()
    for i in bad:
        o = obs[i]
        key = 'X/%s/%s/%s/%s/%s' % (o['program'], o['config']['layout'], o['config']['loc'].split('/')[0], o['config']['invoke'], o['config']['company'])
        o = dict(o, program=o['program'].replace('+tags', ''))
        if key in seen:
            continue
        seen.add(key)
        o2 = run_config(ctx.wire, os.path.join(root, 'confirm%d' % i), o['program'], o['config'])
        shutil.rmtree(root, ignore_errors=True)
        ref = [x for x in obs if x['program'] == o['program']][0]
        if o2['exit'] == 0 and o2['digest'] == ref['digest'] and not o2['leak']:
            # not reproducible in a single re-run: a nondeterministic difference IS the violation (report with both digests)
            pass
        ctx.report({'key': key, 'config': o['config'], 'program': o['program']}, 'config',
                   {'observed': o, 'reference_run': ref, 'rerun': o2})
