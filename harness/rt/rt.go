// Package rt is the run-time support library of the rendered Wire programs:
// instrumented providers call it to log who was called with which argument
// identities, to learn whether they must fail, and to obtain logging cleanup
// closures.  It knows nothing about Wire: it only records.
package rt

import (
	"bufio"
	"encoding/json"
	"fmt"
	"os"
	"reflect"
	"strconv"
)

type event struct {
	E      string        `json:"e"`
	Ci     int           `json:"ci"`
	Key    string        `json:"key"`
	Inj    string        `json:"inj"`
	Sched  int           `json:"sched"`
	P      string        `json:"p"`
	Tok    string        `json:"tok"`
	Args   []interface{} `json:"args"`
	Ok     bool          `json:"ok"`
	V      interface{}   `json:"v"`
	Zero   bool          `json:"zero"`
	HasCl  bool          `json:"hasCl"`
	ClNil  bool          `json:"clNil"`
	HasErr bool          `json:"hasErr"`
	Err    string        `json:"err"`
}

var (
	w       *bufio.Writer
	f       *os.File
	seq     int
	failP   string
	failed  bool // a provider has failed in the current injector call
	curCi   int
	curKey  string
	curInj  string
	curSch  int
	ords    = map[ordKey]int{}
	pinned  []interface{}
	nilDesc = map[string]interface{}{"nil": true}
)

type ordKey struct {
	addr uintptr
	typ  reflect.Type
}

// E is the distinguished error value providers return when told to fail.
type E struct{ Tok string }

func (e *E) Error() string { return "verif failure " + e.Tok }

func Open() {
	path := os.Getenv("VERIF_TRACE")
	if path == "" {
		path = "/dev/stdout"
	}
	var err error
	f, err = os.Create(path)
	if err != nil {
		panic(err)
	}
	w = bufio.NewWriterSize(f, 1<<20)
}

func Close() {
	w.Flush()
	f.Close()
}

func emit(ev event) {
	ev.Ci, ev.Key, ev.Inj, ev.Sched = curCi, curKey, curInj, curSch
	if ev.Args == nil {
		ev.Args = []interface{}{}
	}
	if ev.V == nil {
		ev.V = nilDesc
	}
	b, err := json.Marshal(ev)
	if err != nil {
		panic(err)
	}
	w.Write(b)
	w.WriteByte('\n')
}

func ord(addr uintptr, t reflect.Type) int {
	k := ordKey{addr, t}
	if o, ok := ords[k]; ok {
		return o
	}
	o := len(ords) + 1
	ords[k] = o
	return o
}

// D describes a value: identity tokens, pointer ordinals, struct fields.
func D(v interface{}) interface{} {
	if v == nil {
		return nilDesc
	}
	pinned = append(pinned, v)
	return desc(reflect.ValueOf(v))
}

func isTok(t reflect.Type) bool {
	return t.Kind() == reflect.Struct && t.NumField() == 1 && t.Field(0).Name == "Tok" && t.Field(0).Type.Kind() == reflect.String
}

func desc(v reflect.Value) interface{} {
	switch v.Kind() {
	case reflect.Ptr:
		if v.IsNil() {
			return nilDesc
		}
		m := map[string]interface{}{"p": ord(v.Pointer(), v.Type()), "e": desc(v.Elem())}
		el := v.Elem()
		if el.Kind() == reflect.Struct && !isTok(el.Type()) {
			fa := map[string]interface{}{}
			for i := 0; i < el.NumField(); i++ {
				fld := el.Field(i)
				fa[el.Type().Field(i).Name] = ord(fld.UnsafeAddr(), reflect.PtrTo(fld.Type()))
			}
			if len(fa) > 0 {
				m["fa"] = fa
			}
		}
		return m
	case reflect.Interface:
		if v.IsNil() {
			return nilDesc
		}
		return desc(v.Elem())
	case reflect.Struct:
		if isTok(v.Type()) {
			return map[string]interface{}{"t": v.Field(0).String()}
		}
		fs := map[string]interface{}{}
		for i := 0; i < v.NumField(); i++ {
			fs[v.Type().Field(i).Name] = desc(v.Field(i))
		}
		if len(fs) == 0 {
			return map[string]interface{}{"v": "struct{}"}
		}
		return map[string]interface{}{"s": fs}
	case reflect.Slice, reflect.Array:
		l := []interface{}{}
		for i := 0; i < v.Len(); i++ {
			l = append(l, desc(v.Index(i)))
		}
		m := map[string]interface{}{"l": l}
		if v.Kind() == reflect.Slice && v.Cap() != v.Len() {
			m["cap"] = v.Cap()
		}
		return m
	case reflect.Map:
		if v.IsNil() {
			return nilDesc
		}
		mm := map[string]interface{}{}
		for _, k := range v.MapKeys() {
			mm[fmt.Sprintf("%v", k)] = desc(v.MapIndex(k))
		}
		if len(mm) == 0 {
			return map[string]interface{}{"v": v.Type().String()}
		}
		return map[string]interface{}{"m": mm}
	case reflect.Func, reflect.Chan, reflect.UnsafePointer:
		if v.IsNil() {
			return nilDesc
		}
		return map[string]interface{}{"v": v.Type().String()}
	case reflect.String:
		return map[string]interface{}{"v": v.String()}
	case reflect.Bool:
		return map[string]interface{}{"v": strconv.FormatBool(v.Bool())}
	case reflect.Int, reflect.Int8, reflect.Int16, reflect.Int32, reflect.Int64:
		return map[string]interface{}{"v": strconv.FormatInt(v.Int(), 10)}
	case reflect.Uint, reflect.Uint8, reflect.Uint16, reflect.Uint32, reflect.Uint64, reflect.Uintptr:
		return map[string]interface{}{"v": strconv.FormatUint(v.Uint(), 10)}
	default:
		return map[string]interface{}{"v": fmt.Sprint(v)}
	}
}

func descs(args []interface{}) []interface{} {
	out := make([]interface{}, len(args))
	for i, a := range args {
		out[i] = D(a)
	}
	return out
}

// Reset starts a new trace: case index, key, injector and schedule number.
func Reset(ci int, key, inj string, sched int) {
	curCi, curKey, curInj, curSch = ci, key, inj, sched
	failP, failed = "", false
	emit(event{E: "reset"})
}

// SetFail names the provider that must fail in the next injector call ("" = none).
func SetFail(p string) { failP = p; failed = false }

// ArgTok returns a fresh token for the i-th injector argument.
func ArgTok(i int) string {
	seq++
	return "A" + strconv.Itoa(i) + "#" + strconv.Itoa(seq)
}

func Enter(args ...interface{}) {
	failed = false
	emit(event{E: "enter", Args: descs(args)})
}

// Call logs that provider p runs with these arguments; fail tells it to return an error.
func Call(p string, args ...interface{}) (tok string, fail bool) {
	seq++
	tok = p + "#" + strconv.Itoa(seq)
	fail = p == failP
	emit(event{E: "call", P: p, Tok: tok, Args: descs(args), Ok: !fail})
	if fail {
		failed = true
	}
	return tok, fail
}

// Out logs the value provider p is about to return.
func Out(p string, v interface{}) {
	emit(event{E: "out", P: p, V: D(v)})
}

func Cleanup(p, tok string) func() {
	return func() { emit(event{E: "cleanup", P: p, Tok: tok}) }
}

func Err(p, tok string) error { return &E{Tok: "E:" + tok} }

// Return logs what the injector returned. vp is a POINTER to the result variable, so that zero-ness is judged
// for the declared result type (a nil interface, not a zero struct inside a non-nil interface).
func Return(vp interface{}, hasCl, clNil, hasErr bool, err error) {
	el := reflect.ValueOf(vp).Elem()
	var v interface{}
	if el.IsValid() && el.CanInterface() {
		v = el.Interface()
	}
	ev := event{E: "return", V: D(v), HasCl: hasCl, ClNil: clNil, HasErr: hasErr}
	ev.Zero = !el.IsValid() || el.IsZero()
	if err != nil {
		if e, ok := err.(*E); ok {
			ev.Err = e.Tok
		} else {
			ev.Err = "?" + err.Error()
		}
	}
	emit(ev)
}

func Invoke()  { emit(event{E: "invoke"}) }
func Invoked() { emit(event{E: "invoked"}) }

func Panicked(r interface{}) { emit(event{E: "panic", Err: fmt.Sprint(r)}) }

// Note logs a free-form observation (used by value-fidelity and copy-decl drivers).
func Note(p string, v interface{}) { emit(event{E: "note", P: p, V: D(v)}) }
