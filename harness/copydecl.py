"""C15: declarations copied from injector files. Catalogue of productions (Go snippets), import contexts,
rendering, double build (default tags / wireinject) and probe comparison.  The judge is TLC (WireJudge!CopyOK)."""
import os, re, json, shutil
import core, render
from core import log, Broken

# name -> (declarations text, [top-level names in order], probe expression (Go) )   $S = qualifier of package strings
CAT = {
    'func-basic': ('func helperAdd(a, b int) int { return a + b }\n', ['helperAdd'], 'helperAdd(2, 3)'),
    'var-decls': ('var counterStart = 10\nvar greeting, punct = "hi", "!"\n', ['counterStart', 'greeting'], 'fmt.Sprint(counterStart, greeting, punct)'),
    'const-iota': ('const (\n\tkA = iota * 10\n\tkB\n\tkC\n\t_\n\tkE\n)\n', ['kA'], 'fmt.Sprint(kA, kB, kC, kE)'),
    'type-struct-tags': ('type tagged struct {\n\tName string `json:"name,omitempty" wire:"-"`\n\tAge  int    `json:"age"`\n\tint\n}\n\nfunc tagOf() string { return reflect.TypeOf(tagged{}).Field(0).Tag.Get("json") + fmt.Sprint(tagged{"n", 3, 4}) }\n',
                         ['tagged', 'tagOf'], 'tagOf()'),
    'type-interface-embedded': ('type shaper interface {\n\tfmt.Stringer\n\tArea() int\n}\n\ntype square struct{ n int }\n\nfunc (s square) Area() int      { return s.n * s.n }\nfunc (s square) String() string { return "sq" }\nfunc useShaper(s shaper) string  { return s.String() + fmt.Sprint(s.Area()) }\n',
                                ['shaper', 'square', 'Area', 'String', 'useShaper'], 'useShaper(square{3})'),
    'method-decls': ('type acc struct{ total int }\n\nfunc (a *acc) add(n int) *acc { a.total += n; return a }\nfunc (a acc) get() int        { return a.total }\n', ['acc', 'add', 'get'], '(&acc{}).add(2).add(5).get()'),
    'func-closure-capture': ('func makeCounter() func() int {\n\tn := 0\n\treturn func() int {\n\t\tn++\n\t\treturn n\n\t}\n}\n\nfunc useCounter() int {\n\tc := makeCounter()\n\tc()\n\tc()\n\treturn c()\n}\n', ['makeCounter', 'useCounter'], 'useCounter()'),
    'func-defer-recover': ('func safeDiv(a, b int) (res int, err error) {\n\tdefer func() {\n\t\tif r := recover(); r != nil {\n\t\t\terr = fmt.Errorf("recovered: %v", r)\n\t\t}\n\t}()\n\tres = a / b\n\treturn\n}\n', ['safeDiv'], 'func() string { a, e := safeDiv(1, 0); b, _ := safeDiv(6, 3); return fmt.Sprint(a, e != nil, b) }()'),
    'func-labels-goto': ('func labelled(n int) int {\n\tsum := 0\nouter:\n\tfor i := 0; i < n; i++ {\n\t\tfor j := 0; j < n; j++ {\n\t\t\tif j == 2 {\n\t\t\t\tcontinue outer\n\t\t\t}\n\t\t\tif i == 3 {\n\t\t\t\tbreak outer\n\t\t\t}\n\t\t\tsum += i*10 + j\n\t\t}\n\t}\n\tif sum > 1000 {\n\t\tgoto done\n\t}\n\tsum++\ndone:\n\treturn sum\n}\n', ['labelled'], 'labelled(5)'),
    'func-switch-fallthrough': ('func classify(n int) string {\n\ts := ""\n\tswitch {\n\tcase n < 0:\n\t\ts = "neg"\n\tcase n == 0:\n\t\ts = "zero"\n\t\tfallthrough\n\tcase n < 10:\n\t\ts += "small"\n\tdefault:\n\t\ts = "big"\n\t}\n\tswitch x := n % 3; x {\n\tcase 0, 1:\n\t\ts += "a"\n\tcase 2:\n\t\ts += "b"\n\t}\n\treturn s\n}\n', ['classify'], 'classify(0) + classify(5) + classify(-2) + classify(11)'),
    'func-typeswitch': ('func kindOf(v interface{}) string {\n\tswitch x := v.(type) {\n\tcase nil:\n\t\treturn "nil"\n\tcase int, int64:\n\t\treturn fmt.Sprint("int", x)\n\tcase string:\n\t\treturn "str" + x\n\tcase []int:\n\t\treturn fmt.Sprint(len(x))\n\tcase error:\n\t\treturn x.Error()\n\tdefault:\n\t\treturn "other"\n\t}\n}\n', ['kindOf'], 'kindOf(nil) + kindOf(3) + kindOf("s") + kindOf([]int{1, 2}) + kindOf(1.5)'),
    'func-select-chan-go': ('func pump(n int) int {\n\tch := make(chan int, n)\n\tdone := make(chan struct{})\n\tgo func() {\n\t\tdefer close(done)\n\t\tfor i := 0; i < n; i++ {\n\t\t\tch <- i\n\t\t}\n\t\tclose(ch)\n\t}()\n\t<-done\n\tsum := 0\n\tfor {\n\t\tselect {\n\t\tcase v, ok := <-ch:\n\t\t\tif !ok {\n\t\t\t\treturn sum\n\t\t\t}\n\t\t\tsum += v\n\t\tdefault:\n\t\t\treturn -1\n\t\t}\n\t}\n}\n\nfunc dirs(in <-chan int, out chan<- int) { out <- <-in }\n', ['pump', 'dirs'], 'pump(5)'),
    'func-range-forms': ('func ranges() string {\n\ts := ""\n\tfor i, v := range []string{"a", "b"} {\n\t\ts += fmt.Sprint(i, v)\n\t}\n\tfor i := range [3]int{} {\n\t\ts += fmt.Sprint(i)\n\t}\n\tm := map[string]int{"k": 1}\n\tfor k, v := range m {\n\t\ts += k + fmt.Sprint(v)\n\t}\n\tfor _, r := range "h\u00e9" {\n\t\ts += string(r)\n\t}\n\tfor range [2]int{} {\n\t\ts += "."\n\t}\n\treturn s\n}\n', ['ranges'], 'ranges()'),
    'func-composite-literals': ('type pt struct{ X, Y int }\n\nfunc lits() string {\n\ta := [...]int{2: 5, 7}\n\tb := []pt{{1, 2}, {X: 3}}\n\tc := map[pt][]string{{1, 1}: {"x"}, {2, 2}: nil}\n\td := &pt{Y: 9}\n\te := [][]int{{1}, {2, 3}}\n\tf := struct {\n\t\tA int\n\t\tB []pt\n\t}{1, b}\n\treturn fmt.Sprint(a, b, len(c), *d, e, f)\n}\n', ['pt', 'lits'], 'lits()'),
    'func-slice-index-exprs': ('func slices() string {\n\ts := []int{0, 1, 2, 3, 4, 5, 6, 7}\n\ta := s[2:5]\n\tb := s[2:5:6]\n\tc := s[:3]\n\td := s[6:]\n\te := s[:]\n\tstr := "hello"[1:3]\n\tarr := [4]int{1, 2, 3, 4}\n\tp := &arr\n\tf := p[1:3]\n\treturn fmt.Sprint(a, cap(a), b, cap(b), c, d, len(e), str, f, s[len(s)-1], arr[1])\n}\n', ['slices'], 'slices()'),
    'func-variadic-ellipsis': ('func sum(base int, xs ...int) int {\n\tfor _, x := range xs {\n\t\tbase += x\n\t}\n\treturn base\n}\n\nfunc useSum() int { ys := []int{1, 2, 3}; return sum(1) + sum(1, 2) + sum(0, ys...) }\n', ['sum', 'useSum'], 'useSum()'),
    'func-literal-iife': ('var computed = func() int { x := 6; return x * 7 }()\n\nfunc iife() int { return func(a int) int { return a + computed }(1) }\n', ['computed', 'iife'], 'iife()'),
    'func-shadowing-scopes': ('func shadow(x int) int {\n\ty := x\n\t{\n\t\tx := y * 2\n\t\ty := x + 1\n\t\tif x := y; x > 3 {\n\t\t\ty = x\n\t\t}\n\t\t_ = y\n\t\tx++\n\t}\n\tfor x := 0; x < 2; x++ {\n\t\ty += x\n\t}\n\treturn x + y\n}\n', ['shadow'], 'shadow(4)'),
    'func-incdec-assignops': ('func ops(n int) int {\n\tn++\n\tn += 3\n\tn -= 1\n\tn *= 2\n\tn /= 3\n\tn %= 7\n\tn <<= 2\n\tn >>= 1\n\tn |= 8\n\tn &= 0xff\n\tn ^= 5\n\tn &^= 1\n\tn--\n\treturn n\n}\n', ['ops'], 'ops(10)'),
    'func-pointer-star-addr': ('func ptrs() int {\n\tx := 5\n\tp := &x\n\tpp := &p\n\t**pp = 7\n\t*p += 1\n\ttype node struct {\n\t\tv    int\n\t\tnext *node\n\t}\n\tn := &node{1, &node{2, nil}}\n\treturn x + n.next.v + (*n).v\n}\n', ['ptrs'], 'ptrs()'),
    'func-type-assert-conversion': ('type myInt int\n\nfunc convs(v interface{}) string {\n\ti, ok := v.(int)\n\tf := float64(i) / 2\n\tm := myInt(i) + 1\n\tb := []byte("ab")\n\ts := string(b) + string(rune(65))\n\tvar e interface{} = m\n\t_, isStr := e.(fmt.Stringer)\n\treturn fmt.Sprint(i, ok, f, m, s, isStr, (*int)(nil) == nil)\n}\n', ['myInt', 'convs'], 'convs(3)'),
    'type-func-chan-map-array': ('type (\n\thandler  func(string, ...int) (int, error)\n\tpipe     chan<- map[string][2]*int\n\trecvOnly <-chan struct{}\n\tgrid     [2][3]bool\n\tnested   map[string]map[int][]handler\n)\n\nfunc typesUse() string {\n\tvar h handler = func(s string, xs ...int) (int, error) { return len(s) + len(xs), nil }\n\tn, _ := h("ab", 1, 2)\n\tvar g grid\n\tg[1][2] = true\n\treturn fmt.Sprint(n, g, nested(nil) == nil, pipe(nil) == nil, recvOnly(nil) == nil)\n}\n', ['handler', 'typesUse'], 'typesUse()'),
    'func-named-results-bare-return': ('func divmod(a, b int) (q, r int) {\n\tq = a / b\n\tr = a % b\n\treturn\n}\n', ['divmod'], 'func() string { q, r := divmod(17, 5); return fmt.Sprint(q, r) }()'),
    'func-if-else-init': ('func sign(n int) string {\n\tif n < 0 {\n\t\treturn "-"\n\t} else if m := n * 2; m == 0 {\n\t\treturn "0"\n\t} else {\n\t\treturn fmt.Sprint("+", m)\n\t}\n}\n', ['sign'], 'sign(-1) + sign(0) + sign(4)'),
    'func-for-forms': ('func loops() int {\n\tn := 0\n\tfor i := 0; i < 3; i++ {\n\t\tn += i\n\t}\n\tfor n < 10 {\n\t\tn += 4\n\t}\n\tfor {\n\t\tn++\n\t\tif n > 12 {\n\t\t\tbreak\n\t\t}\n\t}\n\tfor i, j := 0, 10; i < j; i, j = i+1, j-1 {\n\t\tn += j - i\n\t}\n\treturn n\n}\n', ['loops'], 'loops()'),
    'var-block-multi': ('var (\n\tva, vb int = 1, 2\n\tvc        = []string{"x"}\n\tvd struct{ Z int }\n)\n', ['va'], 'fmt.Sprint(va, vb, vc, vd)'),
    'doc-comments': ('// documented explains itself.\n// It has two lines.\nfunc documented() string {\n\t// inner comment\n\treturn "doc" /* inline */\n}\n\n// typeDoc is a documented type.\ntype typeDoc struct {\n\t// F is a field.\n\tF int // trailing\n}\n', ['documented', 'typeDoc'], 'documented() + fmt.Sprint(typeDoc{1})'),
    'func-generic': ('func mapSlice[T, U any](xs []T, f func(T) U) []U {\n\tout := make([]U, 0, len(xs))\n\tfor _, x := range xs {\n\t\tout = append(out, f(x))\n\t}\n\treturn out\n}\n\nfunc useGeneric() string { return fmt.Sprint(mapSlice([]int{1, 2}, func(i int) string { return fmt.Sprint(i * 2) })) }\n', ['mapSlice', 'useGeneric'], 'useGeneric()'),
    'type-generic': ('type box[T any] struct{ V T }\n\nfunc (b box[T]) get() T { return b.V }\n\nfunc useBox() string { return fmt.Sprint(box[int]{4}.get(), box[string]{"s"}.get()) }\n', ['box', 'get', 'useBox'], 'useBox()'),
    'type-generic-two-params': ('type pair[K comparable, V any] struct {\n\tKey K\n\tVal V\n}\n\nfunc mkPair[K comparable, V any](k K, v V) pair[K, V] { return pair[K, V]{k, v} }\n\nfunc usePair() string { p := mkPair[string, int]("a", 1); var q pair[int, bool]; return fmt.Sprint(p, q) }\n', ['pair', 'mkPair', 'usePair'], 'usePair()'),
    'func-uses-imported-types': ('func shout(b *$Bstrings.Builder, r *$Sstrings.Reader) string {\n\tb.WriteString($Sstrings.ToUpper("abc"))\n\tvar sb $Sstrings.Builder\n\tsb.WriteString(fmt.Sprint(r.Len()))\n\treturn b.String() + sb.String() + $Sstrings.Repeat("z", 2)\n}\n\nfunc shoutProbe() string { return shout(new($Sstrings.Builder), $Sstrings.NewReader("hello")) }\n', ['shout', 'shoutProbe'], 'shoutProbe()'),
    'func-struct-anonymous': ('func anon() string {\n\tv := struct {\n\t\tA int\n\t\tB struct{ C string }\n\t}{A: 1}\n\tv.B.C = "c"\n\tvar i interface{ M() }\n\treturn fmt.Sprint(v, i == nil)\n}\n', ['anon'], 'anon()'),
    'func-multi-assign-swap': ('func swap() string {\n\ta, b, c := 1, 2, 3\n\ta, b, c = c, a, b\n\tarr := []int{1, 2}\n\tarr[0], arr[1] = arr[1], arr[0]\n\tm := map[string]int{}\n\tm["x"], a = a, 9\n\tv, ok := m["y"]\n\treturn fmt.Sprint(a, b, c, arr, m, v, ok)\n}\n', ['swap'], 'swap()'),
    'func-const-expr-shifts': ('const (\n\tkb = 1 << (10 * (iota + 1))\n\tmb\n)\n\nconst mask = ^uint8(0) >> 3\n\nfunc consts() string { return fmt.Sprint(kb, mb, mask, 7/2, 7.0/2, 1e3, 0x1F, 0o17, 0b101, 1_000) }\n', ['kb', 'mask', 'consts'], 'consts()'),
    'type-alias': ('type label = string\n\ntype defined string\n\nfunc kinds(v interface{}) string {\n\tswitch v.(type) {\n\tcase string:\n\t\treturn "string"\n\tcase defined:\n\t\treturn "defined"\n\t}\n\treturn "other"\n}\n\nfunc aliasProbe() string { return kinds(label("x")) + kinds(defined("y")) + fmt.Sprintf("%T", label("z")) }\n',
                   ['label', 'defined', 'kinds', 'aliasProbe'], 'aliasProbe()'),
    'func-renamed-local-and-inner-fresh-name': ('func pick(n int) int {\n\treflect := n * 2\n\tout := reflect\n\t{\n\t\treflect2 := 100\n\t\tout += reflect2 + reflect\n\t}\n\tfmt2 := 1\n\tfmt := out + fmt2\n\treturn fmt\n}\n', ['pick'], 'pick(3)'),
    'method-named-like-the-injector': ('type factoryBase struct{}\n\nfunc (factoryBase) Inject() string { return "base" }\n\ntype factory struct{ factoryBase }\n\nfunc (factory) Inject() string { return "factory" }\n',
                                       ['factoryBase', 'Inject', 'factory', 'Inject'], 'factory{}.Inject() + factoryBase{}.Inject()'),
    'func-required-parens': ('type point struct{ X, Y int }\n\ntype points []point\n\nfunc parens(p point) string {\n\ts := ""\n\tif p == (point{}) {\n\t\ts += "zero"\n\t}\n\tfor _, q := range (points{{1, 2}}) {\n\t\ts += fmt.Sprint(q.X)\n\t}\n\tswitch (point{1, 2}) == p {\n\tcase true:\n\t\ts += "eq"\n\t}\n\tch := make(chan (<-chan int), 1)\n\tf := (func())(nil)\n\tc := (chan int)(nil)\n\tr := (<-chan int)(c)\n\treturn fmt.Sprint(s, ch != nil, f == nil, r == nil, (*point)(nil) == nil, -(-3), (1+2)*3, (*(&p)).Y)\n}\n',
                             ['point', 'points', 'parens'], 'parens(point{}) + parens(point{1, 2})'),
    'embed-and-init': ('//go:embed data.txt\nvar embedded string\n\nvar initCount int\n\nfunc init() { initCount += 1 }\n\n// second initialiser; the directive below must survive the copy\n//\n//go:noinline\nfunc init() { initCount += 10 }\n',
                       ['embedded', 'initCount', 'init', 'init'], 'embedded + fmt.Sprint(initCount)'),
    'func-three-index-slice-of-imported': ('func clip() string {\n\tbacking := []string{"a", "b", "c", "d", "e", "f"}\n\ts := backing[1:3:4]\n\ts = append(s, "X")\n\ts = append(s, "Y")\n\treturn $Sstrings.Join(backing, "") + $Sstrings.Join(s, "")\n}\n', ['clip'], 'clip()'),
    'func-string-rune-literals': ('func strs() string {\n\treturn "tab\\t" + `raw\\n` + string(\'x\') + string(\'\\n\') + "\\u00e9\\x41" + fmt.Sprint(\'a\', len("日本"), "q\\"q")\n}\n', ['strs'], 'strs()'),
}


def files(rc):
    d = rc.P['decl']
    prod, ctx = d['prod'], d['ctx']
    decl, names, probe = CAT[prod]
    pkg = rc.pkgname
    uses_strings = '$S' in decl or '$B' in decl
    # how the SOURCE file imports strings, and the qualifier it writes
    qual = {'plain': 'strings.', 'alias-differs': 'str.', 'dot-import': '', 'local-collides': 'strings.',
            'same-base-two-imports': 'strings.', 'generated-alias-taken': 'str.', 'dot-import-same-package-name': 'strings.', 'vendor-like-path-element': 'strings.'}[ctx]
    imp = {'plain': '\t"strings"\n', 'alias-differs': '\tstr "strings"\n', 'dot-import': '\t. "strings"\n', 'local-collides': '\t"strings"\n',
           'same-base-two-imports': '\t"strings"\n', 'generated-alias-taken': '\tstr "strings"\n', 'dot-import-same-package-name': '\t"strings"\n', 'vendor-like-path-element': '\t"strings"\n'}[ctx]
    extra_decl = ''
    extra_names = []
    extra_probe = ''
    # every context has a declaration that uses package strings, so that the import is live
    base_decl = 'func upper(s string) string { return %sToUpper(s) + %sTrimSpace(" x ") }\n' % (qual, qual)
    base_names = ['_', '_', 'upper']      # the two blank keep-alive variables are declarations of the file too
    if ctx == 'local-collides':
        extra_decl = ('func localStrings(x string) string {\n\tup := strings.ToUpper(x)\n\t{\n\t\tstrings := "loc"\n\t\tup += strings\n\t}\n\tfmt := len(up)\n\treturn up + string(rune(64+fmt))\n}\n')
        # a local that must be renamed (strings -> strings2) next to a local that already has the fresh name
        extra_decl += ('\nfunc twoLocals(a string) string {\n\tstrings2 := "keep"\n\tstrings := a + "!"\n\treturn strings + strings2\n}\n'
                       '\nfunc innerFresh(a string) string {\n\tstrings := a + "?"\n\tout := strings\n\t{\n\t\tstrings2 := "in"\n\t\tout += strings2 + strings\n\t}\n\treturn out\n}\n')
        # the same inside a function literal: names that occur only there still count as taken
        extra_decl += ('\nfunc litLocals(a string) string {\n\tf := func() string {\n\t\tstrings2 := "lit"\n\t\tstrings := a + "#"\n\t\treturn strings + strings2\n\t}\n\treturn f()\n}\n')
        extra_names = ['localStrings', 'twoLocals', 'innerFresh', 'litLocals']
        extra_probe = ', localStrings("ab"), twoLocals("p"), innerFresh("q"), litLocals("r")'
    elif ctx == 'same-base-two-imports':
        imp += '\thtemplate "html/template"\n\t"text/template"\n'
        extra_decl = ('func esc(s string) string {\n\tt := template.Must(template.New("t").Parse("{{.}}"))\n\tvar sb strings.Builder\n\tt.Execute(&sb, s)\n\treturn sb.String() + htemplate.HTMLEscapeString(s)\n}\n')
        extra_names = ['esc']
        extra_probe = ', esc("<a>")'
    elif ctx == 'dot-import-same-package-name':
        # a dot-imported package whose package NAME equals the name of the package being generated
        imp += '\t. "%s"\n' % rc.pkgpath('b')
        extra_decl = 'func useTwin(n int) int { return Twice(n) + TwinBase }\n'
        extra_names = ['useTwin']
        extra_probe = ', useTwin(4)'
    elif ctx == 'vendor-like-path-element':
        # a package under a path element that merely ends in "vendor" (not a vendor directory), named like a standard package
        imp += '\tvstrings "%s/xvendor/strings"\n' % rc.pkgpath('a')
        extra_decl = 'func useV(s string) string { return vstrings.ToUpper(s) + strings.ToUpper(s) }\n'
        extra_names = ['useV']
        extra_probe = ', useV("v")'
    elif ctx == 'generated-alias-taken':
        # the package declares an identifier named like the import: the generated file must pick another alias
        extra_decl = 'func useReflectName() int { reflect2 := 3; return reflect2 }\n'
        extra_names = ['useReflectName']
        extra_probe = ', useReflectName(), strings'
    if prod == 'embed-and-init':
        imp += '\t_ "embed"\n'
    # qualifiers inside the catalogue snippet
    body = decl.replace('$Sstrings.', qual).replace('$Bstrings.', qual)
    pr = probe.replace('$Sstrings.', 'strings.')
    src = ('//go:build wireinject\n// +build wireinject\n\npackage %s\n\nimport (\n\t"fmt"\n\t"reflect"\n%s\n\t"github.com/google/wire"\n)\n\nvar _ = reflect.TypeOf\nvar _ = fmt.Sprint\n\n'
           % (pkg, imp))
    src += base_decl + '\n' + body + '\n' + extra_decl + '\n'
    src += 'func Inject() Out {\n\twire.Build(NewOut)\n\treturn Out{}\n}\n'
    lib = 'package %s\n\ntype Out struct{ N int }\n\nfunc NewOut() Out { return Out{1} }\n' % pkg
    if ctx == 'generated-alias-taken':
        lib += '\nvar strings = "pkg-level"\n'
    drive = ('package %s\n\nimport (\n\t"fmt"\n\n\t"%s/rt"\n)\n\nvar _ func() Out = Inject\n\nfunc VerifDrive() {\n\trt.Reset(%d, %s, "Inject", 1)\n'
             '\trt.Note("probe", fmt.Sprint(upper("q"), " | ", %s%s))\n}\n' % (pkg, render.MOD, rc.ci, json.dumps(rc.case['key']), pr, extra_probe))
    out = {rc.dir + '/wire.go': src, rc.dir + '/lib.go': lib, rc.dir + '/drive.go': drive}
    if ctx == 'dot-import-same-package-name':
        out[rc.dir + '/b/twin.go'] = 'package %s\n\nvar TwinBase = 40\n\nfunc Twice(n int) int { return 2 * n }\n' % pkg
    if prod == 'embed-and-init':
        out[rc.dir + '/data.txt'] = 'embedded-data\n'
    if ctx == 'vendor-like-path-element':
        out[rc.dir + '/xvendor/strings/strings.go'] = 'package strings\n\nfunc ToUpper(s string) string { return "<" + s + ">" }\n'
    return out, base_names + names + extra_names


TOP = re.compile(r'^(?:func (?:\([^)]*\) )?(\w+)|type (\w+)|var (\w+)|const (\w+)|(var|const|type) \($)', re.M)


def declared_names(gen_text):
    """names of top-level declarations copied after the '// wire.go:' marker, in order (first name of each block)"""
    i = gen_text.find('\n// wire.go:\n')
    if i < 0:
        return []
    txt = gen_text[i:]
    out = []
    lines = txt.splitlines()
    k = 0
    while k < len(lines):
        m = TOP.match(lines[k])
        if m:
            if m.group(5):
                # block: first spec name (skip comment lines)
                j = k + 1
                while j < len(lines) and (lines[j].strip().startswith('//') or not lines[j].strip()):
                    j += 1
                mm = re.match(r'\s*(\w+)', lines[j]) if j < len(lines) else None
                if mm:
                    out.append(mm.group(1))
            else:
                out.append(next(g for g in m.groups()[:4] if g))
        k += 1
    return out


def run(ctx, cases):
    """cases: exported D cases. Returns nothing; violations reported through ctx."""
    import pipeline
    ctx.build()
    sc = ctx.sc
    ctx.nbatch += 1
    name = 'd%d' % ctx.nbatch
    b = core.Batch(sc, [], name=name)
    expected = {}
    rcs = []
    for i, c in enumerate(cases):
        rc = render.Case(c, i + 1)
        fs, names = files(rc)
        render.write_files(b.root, fs)
        expected[rc.dir] = names
        rcs.append(rc)
    b.cases = rcs
    b.by_dir = {c.dir: c for c in rcs}
    dirs = [c.dir for c in rcs]
    pipeline.typecheck_gate(b, dirs)
    cases_path = sc.path(name + '.cases.ndjson')
    b.write_cases(cases_path)
    tr = core.ToolRun(b, ctx.wire, 'gen')
    obs = tr.run_all()
    allobs = [obs[d] for d in dirs]
    wrote = [d for d in dirs if obs[d]['wrote']]
    br = core.go_build(b, wrote) if wrote else {}
    for d in wrote:
        obs[d]['built'] = 'fail' if br[d] else 'ok'
        if br[d]:
            obs[d]['build_err'] = br[d][:1200]
    good = [d for d in wrote if obs[d]['built'] == 'ok']
    probes = {}
    for tag, label in (('', 'default'), ('wireinject', 'inject')):
        # the same driver built without and with the wireinject tag
        cs = [b.by_dir[d] for d in good]
        dd = os.path.join(b.root, 'cmd', 'drv' + label)
        os.makedirs(dd, exist_ok=True)
        with open(os.path.join(dd, 'main.go'), 'w') as f:
            f.write(render.main_file(cs))
        exe = sc.path(name + label + '.exe')
        rc_, so, se, dt = core.run(['go', 'build', '-tags', tag, '-o', exe, './cmd/drv' + label], cwd=b.root, timeout=1800)
        if rc_ != 0:
            if label == 'inject':
                raise Broken('driver does not build under -tags wireinject (template problem): ' + se[-2000:])
            raise Broken('driver build failed: ' + se[-2000:])
        trace = sc.path(name + label + '.trace')
        rc_, so, se, dt = core.run([exe], cwd=b.root, env=dict(core.GOENV, VERIF_TRACE=trace), timeout=600)
        if rc_ != 0:
            raise Broken('probe driver failed: ' + se[-2000:])
        for line in open(trace):
            e = json.loads(line)
            if e['e'] == 'note':
                probes.setdefault(e['ci'], {})[label] = e['v']
    for d in dirs:
        c = b.by_dir[d]
        gen = os.path.join(b.root, d, 'wire_gen.go')
        txt = open(gen, errors='replace').read() if os.path.exists(gen) else ''
        pr = probes.get(c.ci, {})
        allobs.append({'ci': c.ci, 'key': c.case['key'], 'cmd': 'copy', 'declared': declared_names(txt), 'expected': expected[d],
                       'built_default': obs[d]['built'], 'frame_ok': obs[d].get('frame_ok', True), 'built_inject': 'ok' if d in good else 'na',
                       'probe_default': [pr['default']] if 'default' in pr else [], 'probe_inject': [pr['inject']] if 'inject' in pr else [],
                       'failed': obs[d]['failed'], 'wrote': obs[d]['wrote'], 'panic': obs[d]['panic'], 'hang': False, 'diags': obs[d]['diags'],
                       'build_err': obs[d].get('build_err', ''), 'stderr_tail': obs[d].get('stderr_tail', '')[-600:]})
    badidx, n = pipeline.judge_static(sc, cases_path, allobs, name=name + '-judge')
    cov = ctx.res.cov
    cov['evaluations'] += n
    cov['traces_validated_against_impl'] += n - len(badidx)
    for c in cases:
        ctx.keys.add(c['key']); ctx.nontrivial.add(c['key'])
    cov['distinct_nontrivial'] = len(ctx.nontrivial)
    cov['cases'] = len(ctx.keys)
    if len(cov['samples']) < 3:
        cov['samples'] += [{'key': o['key'], 'declared': o['declared'], 'probe': o['probe_default']} for o in allobs if o['cmd'] == 'copy'][:3]
    seen = set()
    for i in sorted(badidx):
        o = allobs[i]
        case = b.cases[o['ci'] - 1].case
        if (case['key'], o['cmd']) in seen:
            continue
        seen.add((case['key'], o['cmd']))
        ctx.report(case, 'tool:' + o['cmd'], o)
    shutil.rmtree(b.root, ignore_errors=True)
