#!/usr/bin/env python3
"""verif <ID> <quick|thorough>   |   verif --replay <path>

Exit 0: property held on everything explored (KNOWN-FINDING lines for recorded defects);
exit 1: VIOLATION property=<id> replay=<path>;  exit 2: the check itself could not run."""
import os, sys, json, time, shutil, traceback, fnmatch
sys.path.insert(0, os.path.dirname(os.path.abspath(__file__)))
import core, pipeline
from core import log, Broken


def self_tok_only(c):
    """the exhaustive run-time model generates token values: programs whose providers return token types (or pointers to them)"""
    kinds = {a['id']: a['kind'] for a in c['prog']['atoms']}
    for l in c['prog']['leaves']:
        if l['k'] == 'func':
            t = l['out'].lstrip('*')
            yield kinds.get(t) in ('tok', 'struct', 'iface') and '[]' not in l['out'] and not any('[]' in i for i in l['ins'])
        elif l['k'] in ('value', 'ivalue'):
            yield False
    yield not any('[]' in p['type'] for i in c['prog']['injs'] for p in i['params'])


class Ctx:
    def __init__(self, pid, tier, seed, level):
        self.pid, self.tier, self.seed = pid, tier, seed
        self.quick = tier == 'quick'
        self.sc = core.Scratch(pid)
        self.res = core.Result(pid, tier, seed, level)
        self.wire = None
        self.known = [k for k in core.load_known() if k.get('property') == pid]
        self.keys = set()
        self.nontrivial = set()
        self.rules = []
        self.nbatch = 0
        self.design = []   # design-level model checking runs

    def build(self):
        if not self.wire:
            core.trim_build_cache()
            self.wire = core.build_wire(self.sc)
        return self.wire

    def export(self, expr, name=None, extends='WireFamilies', pre_sample=None, caseop='Case'):
        self.nbatch += 1
        cases, total = core.export_cases(self.sc, name or ('Exp%d' % self.nbatch), expr, extends=extends,
                                         pre_sample=pre_sample, seed=self.seed, caseop=caseop)
        self.res.cov.setdefault('family_sizes', {})[expr] = total
        return cases

    def sample(self, cases, k, must=lambda c: False):
        return core.sample(cases, k, self.seed, must)

    def run(self, cases, nontrivial=lambda c: True, **kw):
        """pipeline + confirmation of every rejected observation on the single case"""
        self.build()
        self.nbatch += 1
        out = pipeline.run_cases(self.sc, self.wire, cases, name='b%d' % self.nbatch, **kw)
        cov = self.res.cov
        cov['evaluations'] += out.n_obs + out.n_traces
        cov['traces_validated_against_impl'] += out.n_obs + out.n_traces - len(out.bad)
        cov['trace_states'] = cov.get('trace_states', 0) + out.states        # states of the trace-validation runs (one per event)
        cov['trace_events'] = cov.get('trace_events', 0) + out.n_events
        # conformance of WireAnalyze (information, never a verdict: the property does not prescribe an algorithm):
        # do the real loop-iteration counters equal the counts the model predicts?
        for c in cases:
            if c.get('workpred') and c['key'] in getattr(out, 'work', {}):
                w = out.work[c['key']]
                k = 'workpred_matches' if [w[0], w[1]] in [list(x) for x in c['workpred']] else 'workpred_mismatches'
                cov[k] = cov.get(k, 0) + 1
        # ... and does the order in which the generated injector calls the providers equal the plan the model computes?
        for (key, injn), ranseq in getattr(out, 'ran', {}).items():
            pl = getattr(self, 'plans', {}).get((key, injn))
            if pl:
                k = 'plan_order_predicted_exactly' if tuple(ranseq) in pl else 'plan_order_differs'
                cov[k] = cov.get(k, 0) + 1
        for c in cases:
            if c['key'] not in self.keys:
                self.keys.add(c['key'])
                if nontrivial(c):
                    self.nontrivial.add(c['key'])
        cov['distinct_nontrivial'] = len(self.nontrivial)
        cov.setdefault('cases', 0)
        cov['cases'] = len(self.keys)
        cov['accepted_by_wire'] = cov.get('accepted_by_wire', 0) + out.accepted
        cov['rejected_by_wire'] = cov.get('rejected_by_wire', 0) + out.rejected
        if len(cov['samples']) < 6:
            cov['samples'] += out.samples[:6 - len(cov['samples'])]
        seen = set()
        cap = int(os.environ.get('VERIF_MAX_CONFIRM', '25'))
        for b in out.bad:
            key = b['case']['key']
            if (key, b['kind']) in seen:
                continue
            seen.add((key, b['kind']))
            if len(seen) > cap:
                # enough confirmed violations from this batch; the remaining rejections are counted, not re-run
                cov['rejections_not_reconfirmed'] = cov.get('rejections_not_reconfirmed', 0) + 1
                continue
            self.confirm(b, kw, batch=cases)
        return out

    def confirm(self, b, kw, batch=None):
        case = b['case']
        self.nbatch += 1
        out2 = pipeline.run_cases(self.sc, self.wire, [case], name='r%d' % self.nbatch, **kw)
        same = [x for x in out2.bad if x['kind'] == b['kind']]
        if not same and batch and len(batch) > 1:
            # not on the single case: does it come back when the same packages are processed together again?
            # (a defect that depends on what else is in the invocation is still a defect)
            if not hasattr(self, '_rebatch') or self._rebatch[0] is not batch:
                self.nbatch += 1
                self._rebatch = (batch, pipeline.run_cases(self.sc, self.wire, batch, name='rb%d' % self.nbatch, **kw))
            same = [x for x in self._rebatch[1].bad if x['kind'] == b['kind'] and x['case']['key'] == case['key']]
            if same:
                same[0]['detail'] = dict(same[0]['detail'], only_in_multi_package_invocation=True, packages_in_invocation=len(batch))
        if not same:
            raise Broken('rejected observation for %s (%s) did not reproduce, neither alone nor in its batch' % (case['key'], b['kind']))
        self.report(case, b['kind'], same[0]['detail'], kw)

    def report(self, case, kind, detail, kw=None, extra_files=None):
        key = case['key']
        for k in self.known:
            if fnmatch.fnmatch(key, k['key']) and (not k.get('kind') or k['kind'] == kind):
                line = 'KNOWN-FINDING: property=%s %s [%s]' % (self.pid, k['what'], key)
                if line not in self.res.known:
                    self.res.known.append(line)
                    print(line, flush=True)
                return
        d = core.replay_dir(self.pid, key + '|' + kind)
        with open(os.path.join(d, 'case.json'), 'w') as f:
            json.dump({'property': self.pid, 'kind': kind, 'case': case, 'run_args': {k: v for k, v in (kw or {}).items() if isinstance(v, (bool, int, str, list, tuple))}}, f, indent=1)
        with open(os.path.join(d, 'observation.json'), 'w') as f:
            json.dump(detail, f, indent=1)
        # rendered sources for the reader
        try:
            import render
            rc = render.Case(case, 1)
            render.write_files(os.path.join(d, 'src'), rc.files(True))
        except Exception:
            pass
        for name, txt in (extra_files or {}).items():
            with open(os.path.join(d, name), 'w') as f:
                f.write(txt)
        self.res.violations.append((key, d))
        print('VIOLATION property=%s replay=%s' % (self.pid, d), flush=True)

    def design_inject(self, cases, maxcalls=2, limit=700, label=''):
        """Exhaustive TLC exploration of WireInject over the accepted programs among `cases`:
        every dependency-respecting call order, every failure point, repeated calls."""
        acc = [c for c in cases if any(e['verdict'] == 'yes' for e in c['expect'])
               and all(self_tok_only(c))]
        acc = core.sample(acc, limit, self.seed)
        if not acc:
            return
        self.nbatch += 1
        path = self.sc.path('mc%d.cases.ndjson' % self.nbatch)
        with open(path, 'w') as f:
            for c in acc:
                f.write(json.dumps(c) + '\n')
        cfg = ('SPECIFICATION MCSpec\nCONSTANTS\n CheckW = TRUE\n CheckE = TRUE\n CheckC = TRUE\n MaxCalls = %d\n CasesFile = "%s"\n'
               'INVARIANTS TypeOK AtMostOnce ReleaseIsReversePrefix NoCleanupWhileRunning AllReleasedWhenDone AcquiredRan '
               'DependentBeforeDependency DependencyOrder NoCallAfterFailure NoLeak\nPROPERTY Terminates\nCHECK_DEADLOCK FALSE\n' % (maxcalls, path))
        rc, out, dt = core.tlc(self.sc, 'WireInjectMC', None, cfg, workers=8, timeout=3000)
        if rc != 0 or 'No error has been found' not in out:
            raise Broken('WireInjectMC reports an error (a defect of the specification, never a violation): ' + out[-3000:])
        g, d = core.tlc_stats(out)
        log('WireInject model-checked over %d programs: %d states generated, %d distinct (%.1fs)' % (len(acc), g, d, dt))
        self.add_design('WireInjectMC %s(%d programs, <=%d calls each)' % (label, len(acc), maxcalls), g, d,
                        'invariants TypeOK AtMostOnce ReleaseIsReversePrefix NoCleanupWhileRunning AllReleasedWhenDone AcquiredRan DependentBeforeDependency DependencyOrder NoCallAfterFailure NoLeak; liveness Terminates')

    def design_analyze(self, cases, limit=600, label='', free_roots=True):
        """TLC checks that WireAnalyze (the analysis as the code does it) refines WireSem on these programs;
        returns {case key: set of (acyclic iterations, solve iterations) the machine predicts} for single-injector cases"""
        cs = core.sample([c for c in cases if c['prog'].get('fam') not in ('F', 'E', 'D')], limit, self.seed)
        if not cs:
            return {}
        self.nbatch += 1
        path = self.sc.path('an%d.cases.ndjson' % self.nbatch)
        with open(path, 'w') as f:
            for c in cs:
                f.write(json.dumps(c) + '\n')
        cfg = ('SPECIFICATION Spec\nCONSTANTS\n CasesFile = "%s"\n FreeRootOrder = %s\n'
               'INVARIANTS MapRefines AcyclicRefines AcyclicWork SolveRefines PlanCorrect SolveWork\nPROPERTY Termination\nCHECK_DEADLOCK FALSE\n'
               % (path, 'TRUE' if free_roots else 'FALSE'))
        rc, out, dt = core.tlc(self.sc, 'WireAnalyze', None, cfg, workers=8, timeout=3000)
        if rc != 0 or 'No error has been found' not in out:
            raise Broken('WireAnalyze does not refine WireSem on some program (a defect of the specification, never a violation): ' + out[-3000:])
        g, d = core.tlc_stats(out)
        pred = {}
        import re as _re
        for w in core.tlc_prints(out, 'WORK'):
            m = _re.match(r'"([^"]*)", "([^"]*)", (\d+), (\d+)', w)
            if m:
                pred.setdefault(m.group(1), set()).add((int(m.group(3)), int(m.group(4))))
        self.plans = getattr(self, 'plans', {})
        for w in core.tlc_prints(out, 'PLAN'):
            m = _re.match(r'"([^"]*)", "([^"]*)", (".*")$', w)
            if m:
                self.plans.setdefault((m.group(1), m.group(2)), set()).add(tuple(json.loads(json.loads(m.group(3)))))
        log('WireAnalyze model-checked over %d programs: %d states generated, %d distinct (%.1fs)' % (len(cs), g, d, dt))
        self.add_design('WireAnalyze %s(%d programs)' % (label, len(cs)), g, d,
                        'implementation-shaped model of buildProviderMap / verifyAcyclic / solve / verifyArgsUsed; invariants MapRefines AcyclicRefines AcyclicWork SolveRefines PlanCorrect SolveWork; liveness Termination')
        return pred

    def add_design(self, name, states, distinct, note):
        self.design.append({'model': name, 'states_generated': states, 'distinct_states': distinct, 'note': note})
        self.res.cov['design_models'] = self.design
        self.res.cov['states'] += distinct
        self.res.cov['transitions'] += states

    def finish(self):
        self.res.cov['rule'] = ' | '.join(self.rules)
        self.res.cov['known_findings_seen'] = self.res.known
        self.res.write()
        self.sc.cleanup()
        return 1 if self.res.violations else 0


def main():
    args = sys.argv[1:]
    import props
    if args and args[0] == '--replay':
        return props.replay(args[1])
    if len(args) < 1:
        print(__doc__)
        return 2
    pid = args[0]
    tier = args[1] if len(args) > 1 else os.environ.get('VERIF_TIER', 'quick')
    seed = int(os.environ.get('VERIF_SEED', '1'))
    spec = props.PROPS.get(pid)
    if not spec:
        print('unknown property', pid)
        return 2
    ctx = Ctx(pid, tier, seed, spec['level'])
    try:
        spec['fn'](ctx)
        rc = ctx.finish()
        log('%s %s: %d cases, %d evaluations, %d violations, %d known findings, %.0fs' % (
            pid, tier, len(ctx.keys), ctx.res.cov['evaluations'], len(ctx.res.violations), len(ctx.res.known), time.time() - ctx.res.t0))
        return rc
    except Broken as e:
        log('BROKEN CHECK (exit 2):', e)
        ctx.sc.cleanup()
        return 2
    except Exception:
        traceback.print_exc()
        ctx.sc.cleanup()
        return 2


if __name__ == '__main__':
    sys.exit(main())
