"""Renderer: abstract Wire program (JSON exported by TLC, see spec/WireProg.tla) -> Go packages.

Knows Go syntax, knows NO Wire semantics: it never decides what Wire should do.
"""
import os, re, json

MOD = "example.com/vb"

# non-zero value of a named type %(T)s whose underlying type is the key
NAMED_MK = {
    'bool': '%(T)s(true)', 'int': '%(T)s(7)', 'float64': '%(T)s(1.5)', 'complex128': '%(T)s(complex(1, 2))', 'string': '%(T)s(tok)',
    'uintptr': '%(T)s(9)', '[2]int': '%(T)s{1, 2}', 'struct{ A int }': '%(T)s{A: 1}', '*int': '%(T)s(new(int))', '[]int': '%(T)s{1}',
    'map[string]int': '%(T)s{tok: 1}', 'chan int': 'make(%(T)s)', 'func() int': '%(T)s(func() int { return 1 })',
    'interface{}': '%(T)s(tok)', 'error': '%(T)s(errString(tok))', '[]T2': '%(T)s{MkT2(tok)}', 'map[T2]*T2': '%(T)s{MkT2(tok): nil}',
    '*T2': 'func() %(T)s { v := MkT2(tok); return &v }()', 'T2': '%(T)s(MkT2(tok))', 'unsafe.Pointer': '%(T)s(unsafe.Pointer(new(int)))',
}


def split_type(t):
    pre = []
    while True:
        if t.startswith('*'):
            pre.append('*'); t = t[1:]
        elif t.startswith('[]'):
            pre.append('[]'); t = t[2:]
        else:
            break
    return pre, t


class Case:
    def __init__(self, case, ci):
        self.case = case
        self.ci = ci
        self.P = case['prog']
        self.atoms = {a['id']: a for a in self.P['atoms']}
        self.dir = "c%05d" % ci
        self.pkgname = self.dir
        self.opts = case.get('opts', {}) or {}
        self.naming = self.P.get('naming') or {}
        # atoms some leaf spells through a type alias (type A_T = T)
        self.hidden = {}
        self.aliased = set()
        for l in self.P.get('leaves', []):
            if l.get('alias'):
                for t in (l.get('out'), l.get('s'), l.get('conc'), l.get('parent')):
                    if t:
                        self.aliased.add(split_type(t)[1])
        self.extravars = self.P.get('extravars') or []

    def nm(self, ident):
        """Go identifier for an abstract type / function name (family N renames them)"""
        # the specification's strings are ASCII: U8 / A8 in a name stand for the non-ASCII letters u-umlaut / A-umlaut
        return self.naming.get(ident, ident).replace('U8', '\u00fc').replace('A8', '\u00c4')

    def alias(self, pkg):
        """identifier under which package pkg is imported"""
        a = self.naming.get('alias:' + pkg, self.goname(pkg))
        return 'b' if a == self.pkgname and pkg != 'a' else a

    # ---- packages -------------------------------------------------------
    def pkgs(self):
        if self.case.get('fam') == 'F':
            return ['a', 'b']
        if self.case.get('fam') == 'E':
            return ['a', 'b'] if self.P['value']['home'] in ('b', 'bs') else ['a']
        s = {'a'}
        for a in self.P['atoms']:
            s.add(a['pkg'])
        for l in self.P['leaves']:
            s.add(l['pkg'])
        for st in self.P['sets']:
            s.add(st['pkg'])
        return sorted(s)

    def pkgpath(self, pkg):
        return MOD + "/" + self.dir + ("" if pkg == 'a' else "/" + pkg)

    def pkgdir(self, pkg):
        return self.dir + ("" if pkg == 'a' else "/" + pkg)

    def goname(self, pkg):
        if pkg == 'a':
            return self.pkgname
        n = (self.P.get('naming') or {}).get('pkg:' + pkg, pkg)
        return self.pkgname if n == '@same' else n

    # ---- types ----------------------------------------------------------
    def spell(self, atom):
        return atom.get('go') or atom['id'] if not (atom.get('go') or '').startswith('kind:') else atom['id']

    def gotype(self, t, frompkg, used, alias=False):
        pre, a = split_type(t)
        at = self.atoms[a]
        if alias:
            self.aliased.add(a)
            q = ''
            if at['pkg'] != frompkg:
                q = self.alias(at['pkg']) + '.'
                used.add(at['pkg'])
            return ''.join(pre) + q + 'A_' + at['id']
        q = ''
        if at['pkg'] != frompkg:
            q = self.alias(at['pkg']) + '.'
            used.add(at['pkg'])
        return ''.join(pre) + q + self.nm(at['id'])

    def mk(self, t, tokexpr, frompkg, used):
        """Go expression building a value of type t carrying token tokexpr."""
        pre, a = split_type(t)
        at = self.atoms[a]
        if not pre:
            q = ''
            if at['pkg'] != frompkg:
                q = self.alias(at['pkg']) + '.'
                used.add(at['pkg'])
            return "%sMk%s(%s)" % (q, at['id'], tokexpr)
        inner = t[len(pre[0]):]
        if pre[0] == '*':
            return "func() %s { v := %s; return &v }()" % (self.gotype(t, frompkg, used), self.mk(inner, tokexpr, frompkg, used))
        return "%s{%s}" % (self.gotype(t, frompkg, used), self.mk(inner, tokexpr + '+"[0]"', frompkg, used))

    def valexpr(self, t, tok, frompkg, used):
        """A call-free Go expression of type t (for wire.Value): composite literals only."""
        pre, a = split_type(t)
        at = self.atoms[a]
        if not pre:
            ty = self.gotype(t, frompkg, used)
            if at['kind'] == 'tok':
                return '%s{Tok: "%s"}' % (ty, tok)
            if at['kind'] == 'struct':
                parts = []
                for f in at['fields']:
                    if f['name'][0].isupper() or at['pkg'] == frompkg:
                        parts.append('%s: %s' % (f['name'], self.valexpr(f['type'], tok + '.' + f['name'], frompkg, used)))
                return '%s{%s}' % (ty, ', '.join(parts))
            if at['kind'] == 'iface':
                q = '' if at['pkg'] == frompkg else self.alias(at['pkg']) + '.'
                if q:
                    used.add(at['pkg'])
                return '%sX%s{Tok: "%s"}' % (q, at['id'], tok)
        inner = t[len(pre[0]):]
        if pre[0] == '*':
            return '&' + self.valexpr(inner, tok, frompkg, used)
        return '%s{%s}' % (self.gotype(t, frompkg, used), self.valexpr(inner, tok + '[0]', frompkg, used))

    def if_closure(self, i):
        out = [] if self.atoms[i].get('go') == 'noown' else [i]
        for j in self.atoms[i]['embeds']:
            for k in self.if_closure(j):
                if k not in out:
                    out.append(k)
        return out

    # ---- files ----------------------------------------------------------
    def imports(self, frompkg, used, extra=()):
        lines = []
        for p in sorted(used):
            if p == '!unsafe':
                lines.append('\t"unsafe"')
            elif p != frompkg:
                lines.append('\t%s "%s"' % (self.alias(p), self.pkgpath(p)))
        for e in extra:
            lines.append('\t' + e)
        if not lines:
            return ''
        return 'import (\n' + '\n'.join(lines) + '\n)\n\n'

    def types_file(self, pkg):
        used = set()
        body = []
        for at in self.P['atoms']:
            if at['pkg'] != pkg:
                continue
            i = at['id']
            if at['kind'] == 'tok':
                body.append('type %s struct{ Tok string }\n' % self.nm(i))
                body.append('func Mk%s(tok string) %s { return %s{Tok: tok} }\n' % (i, self.nm(i), self.nm(i)))
            elif at['kind'] == 'struct':
                fl = []
                ini = []
                for f in at['fields']:
                    tag = {'pre': ' `wire:"-"`', 'pre2': ' `json:"-" wire:"-"`', 'foreign': ' `hardwire:"-"`', 'other': ' `json:"x"`'}.get(f.get('tag') or ('pre' if f.get('prevented') else ''), '')
                    fname = f['name']
                    if f.get('tag') == 'embed':
                        gt = self.gotype(f['type'], pkg, used)
                        fl.append('\t%s' % gt)
                        fname = gt.lstrip('*').split('.')[-1]       # an embedded field is named after its (possibly renamed) type
                    else:
                        fl.append('\t%s %s%s' % (f['name'], self.gotype(f['type'], pkg, used), tag))
                    ini.append('%s: %s' % (fname, self.mk(f['type'], 'tok+".%s"' % f['name'], pkg, used)))
                body.append('type %s struct {\n%s\n}\n' % (i, '\n'.join(fl)))
                body.append('func Mk%s(tok string) %s { _ = tok; return %s{%s} }\n' % (i, i, i, ', '.join(ini)))
            elif at['kind'] == 'iface':
                emb = ''.join('\t%s\n' % self.gotype(j, pkg, used) for j in at['embeds'])
                own = '' if at.get('go') == 'noown' else '\tM%s()\n' % i
                body.append('type %s interface {\n%s%s}\n' % (i, emb, own))
                body.append('type X%s struct{ Tok string }\n' % i)
                for j in self.if_closure(i):
                    body.append('func (X%s) M%s() {}\n' % (i, j))
                body.append('func Mk%s(tok string) %s { return X%s{Tok: tok} }\n' % (i, i, i))
            elif at['kind'] == 'named':
                g = at['go']
                alias = g.startswith('=')
                if alias:
                    g = g[1:]
                if 'unsafe.' in g:
                    used.add('!unsafe')
                body.append('type %s %s%s\n' % (i, '= ' if alias else '', g))
                body.append('func Mk%s(tok string) %s { _ = tok; return %s }\n' % (i, i, NAMED_MK[g] % {'T': i}))
            if i in self.aliased:
                body.append('type A_%s = %s\n' % (i, self.nm(i)))
            for m in at.get('impl', []):
                star = '*' if m['recv'] == 'pointer' else ''
                body.append('func (%s%s) M%s() {}\n' % (star, self.nm(i), m['iface']))
        needq = any((l.get('res') or []) and l['pkg'] == pkg for l in self.P['leaves'] if l['k'] == 'func') or \
            (pkg == 'a' and any((i.get('res') or []) for i in self.P['injs']))
        if any(a['kind'] == 'named' and a['go'].lstrip('=') == 'error' and a['pkg'] == pkg for a in self.P['atoms']):
            body.append('type errString string\n\nfunc (e errString) Error() string { return string(e) }\n')
        if needq:
            body.append('type VNamedFunc func()\ntype VErrAlias = error\ntype VErrLike interface{ Error() string }\n')
        return 'package %s\n\n%s%s' % (self.goname(pkg), self.imports(pkg, used), '\n'.join(body))

    def result_types(self, x, outty):
        """result type list for explicit result kinds (family Q) or derived."""
        res = x.get('res') or []
        if not res:
            r = [outty]
            if x['cl']:
                r.append('func()')
            if x['er']:
                r.append('error')
            return r, True
        if res == ['none']:
            return [], False
        m = {'value': outty, 'error': 'error', 'cleanup': 'func()', 'namedfunc': 'VNamedFunc',
             'otherfunc': 'func() int', 'erralias': 'VErrAlias', 'errlike': 'VErrLike'}
        return [m[k] for k in res], False

    def providers_file(self, pkg):
        used = set()
        body = []
        need_q = False
        for l in self.P['leaves']:
            if l['k'] != 'func' or l['pkg'] != pkg:
                continue
            params = []
            names = []
            for j, t in enumerate(l['ins']):
                ty = self.gotype(t, pkg, used)
                if l['va'] and j == len(l['ins']) - 1:
                    assert ty.startswith('[]')
                    ty = '...' + ty[2:]
                params.append('a%d %s' % (j + 1, ty))
                names.append('a%d' % (j + 1))
            outty = self.gotype(l['out'], pkg, used, alias=l.get('alias', False))
            res, derived = self.result_types(l, outty)
            sig = 'func %s(%s) ' % (self.nm(l['name']), ', '.join(params))
            sig += ('(%s)' % ', '.join(res)) if len(res) != 1 else res[0]
            if not derived:
                need_q = True
                body.append('%s {\n\tpanic("signature-only provider")\n}\n' % sig)
                continue
            lines = ['\ttok, fail := rt.Call(%s)' % ', '.join(['"%s"' % l['name']] + names)]
            lines.append('\tif fail {')
            if l['er']:
                lines.append('\t\tvar zero %s' % outty)
                ret = ['zero']
                if l['cl']:
                    ret.append('rt.Cleanup("%s", tok)' % l['name'])
                ret.append('rt.Err("%s", tok)' % l['name'])
                lines.append('\t\treturn ' + ', '.join(ret))
            else:
                lines.append('\t\tpanic("verif: provider %s cannot fail")' % l['name'])
            lines.append('\t}')
            lines.append('\tv := %s' % self.mk(l['out'], 'tok', pkg, used))
            lines.append('\trt.Out("%s", v)' % l['name'])
            ret = ['v']
            if l['cl']:
                ret.append('rt.Cleanup("%s", tok)' % l['name'])
            if l['er']:
                ret.append('nil')
            lines.append('\treturn ' + ', '.join(ret))
            body.append('%s {\n%s\n}\n' % (sig, '\n'.join(lines)))
        if pkg == 'a':
            for v in self.extravars:
                if v == 'err' or v.startswith('err'):
                    body.append('var %s error = rt.Err("captured-%s", "pkgvar")\n' % (v, v))
                elif v.startswith('cleanup'):
                    body.append('var %s func() = func() { rt.Note("captured-%s", nil) }\n' % (v, v))
                else:
                    body.append('var %s = rt.D(nil)\n' % v)
        if not body:
            return None
        extra = ['"%s/rt"' % MOD]
        pre = ''
        if not any('rt.' in b for b in body):
            extra = []
        return 'package %s\n\n%s%s%s' % (self.goname(pkg), self.imports(pkg, used, extra), pre, '\n'.join(body))

    def item_expr(self, it, frompkg, used):
        P = self.P
        if it['k'] == 'set':
            s = P['sets'][it['i'] - 1]
            if s.get('grp') == '=inline':
                return 'wire.NewSet(%s)' % ', '.join(self.item_expr(x, frompkg, used) for x in s['items'])
            if s['pkg'] != frompkg:
                used.add(s['pkg'])
                return self.alias(s['pkg']) + '.' + self.nm(s['name'])
            return self.nm(s['name'])
        l = P['leaves'][it['i'] - 1]
        k = l['k']
        if k == 'func':
            if l['pkg'] != frompkg:
                used.add(l['pkg'])
                return self.alias(l['pkg']) + '.' + self.nm(l['name'])
            return self.nm(l['name'])
        if k == 'struct':
            args = ['new(%s)' % self.gotype(l['s'], frompkg, used, alias=l.get('alias', False))]
            if l['all']:
                args.append('"*"')
            else:
                args += ['"%s"' % n for n in l['sel']]
            return 'wire.Struct(%s)' % ', '.join(args)
        if k == 'structlit':
            return self.gotype(l['s'], frompkg, used) + '{}'
        if k == 'value' and l.get('inacc'):
            # an expression that mentions an unexported identifier of the package it is written in
            self.hidden.setdefault(frompkg, []).append((l['name'], self.gotype(l['out'], frompkg, used), self.valexpr(l['out'], 'V:' + l['name'], frompkg, used)))
            return 'wire.Value(hidden%s)' % l['name']
        if k == 'value' and (l.get('expr') or '').startswith('@var:'):
            # the value is an exported variable of the package the item is written in: the same expression text in two packages
            vn = l['expr'][5:]
            if not any(h[0] == '@' + vn for h in self.hidden.get(frompkg, [])):
                self.hidden.setdefault(frompkg, []).append(('@' + vn, self.gotype(l['out'], frompkg, used), self.valexpr(l['out'], 'V:' + l['name'], frompkg, used)))
            return 'wire.Value(%s)' % vn
        if k == 'value':
            e = l['expr'] or self.valexpr(l['out'], 'V:' + l['name'], frompkg, used)
            if l.get('alias'):
                e = '%s(%s)' % ('(' + self.gotype(l['out'], frompkg, used, alias=True) + ')', e)
            return 'wire.Value(%s)' % e
        if k == 'ivalue':
            e = l['expr'] or self.valexpr(l['conc'], 'V:' + l['name'], frompkg, used)
            return 'wire.InterfaceValue(new(%s), %s)' % (self.gotype(l['iface'], frompkg, used), e)
        if k == 'bind':
            return 'wire.Bind(new(%s), new(%s))' % (self.gotype(l['iface'], frompkg, used), self.gotype(l['conc'], frompkg, used, alias=l.get('alias', False)))
        if k == 'fields':
            return 'wire.FieldsOf(new(%s), %s)' % (self.gotype(l['parent'], frompkg, used, alias=l.get('alias', False)), ', '.join('"%s"' % n for n in l['names']))
        raise ValueError(k)

    def sets_file(self, pkg):
        used = set()
        body = []
        plain = []
        groups = {}
        for s in self.P['sets']:
            if s['pkg'] != pkg or s.get('grp') == '=inline' or (pkg == 'a' and (self.P.get('opts') or {}).get('setsinwire')):
                continue
            items = [self.item_expr(it, pkg, used) for it in s['items']]
            init = 'wire.NewSet(%s)' % ', '.join(items)
            g = s.get('grp') or ''
            if g == '=alias':
                # a plain re-export of another package's set: no marker call, no wire import in this file
                plain.append('var %s = %s\n' % (self.nm(s['name']), items[0]))
                continue
            if g:
                groups.setdefault(g, []).append((self.nm(s['name']), init))
            else:
                body.append('var %s = %s\n' % (self.nm(s['name']), init))
        for g, lst in groups.items():
            body.append('var %s = %s\n' % (', '.join(n for n, _ in lst), ', '.join(i for _, i in lst)))
        for (hn, hty, hexpr) in self.hidden.get(pkg, []):
            body.append('var %s %s = %s\n' % (hn[1:] if hn.startswith('@') else 'hidden' + hn, hty, hexpr))
        if plain and not body:
            return 'package %s\n\n%s%s' % (self.goname(pkg), self.imports(pkg, used), '\n'.join(plain))
        body += plain
        if not body:
            return None
        return self.dotwire('package %s\n\n%s%s' % (self.goname(pkg), self.imports(pkg, used, ['"github.com/google/wire"']), '\n'.join(body)))

    def dotwire(self, txt):
        """the same file with the wire package dot-imported (program option dotwire)"""
        if not (self.P.get('opts') or {}).get('dotwire'):
            return txt
        return txt.replace('\t"github.com/google/wire"', '\t. "github.com/google/wire"').replace('wire.', '')

    def inj_sig(self, inj, pkg, used, named=True):
        params = []
        for j, p in enumerate(inj['params']):
            ty = self.gotype(p['type'], pkg, used)
            if inj['va'] and j == len(inj['params']) - 1:
                ty = '...' + ty[2:]
            params.append(('%s %s' % (p['name'], ty)) if named and p['name'] else ty)
        outty = self.gotype(inj['out'], pkg, used)
        res, _ = self.result_types(inj, outty)
        r = ('(%s)' % ', '.join(res)) if len(res) != 1 else res[0]
        return params, r, res

    @staticmethod
    def callee(inj):
        """how the rest of the package refers to the injector: the template's own shape (C01: same name, parameters, results)"""
        return {'generic': '%s[int]', 'method': 'VerifRecv{}.%s'}.get(inj.get('form', 'func'), '%s') % inj['name']

    def wire_files(self):
        """one injector file per distinct inj.file: wire.go, wire_2.go, ..."""
        out = {}
        for fno in sorted(set(inj.get('file', 1) for inj in self.P['injs'])):
            used = set()
            body = []
            for inj in self.P['injs']:
                if inj.get('file', 1) != fno:
                    continue
                params, r, res = self.inj_sig(inj, 'a', used)
                items = [self.item_expr(it, 'a', used) for it in inj['items']]
                decl = {'generic': '%s[X any]', 'method': '(VerifRecv) %s'}.get(inj.get('form', 'func'), '%s') % inj['name']
                body.append('func %s(%s) %s {\n\tpanic(wire.Build(%s))\n}\n' % (decl, ', '.join(params), r, ', '.join(items)))
            if fno == 1 and (self.P.get('opts') or {}).get('setsinwire'):
                # the sets of the injector package are declared here, in the injector file
                for st in self.P['sets']:
                    if st['pkg'] == 'a' and st.get('grp') != '=inline':
                        body.append('var %s = wire.NewSet(%s)\n' % (self.nm(st['name']), ', '.join(self.item_expr(it, 'a', used) for it in st['items'])))
            if fno == 1 and (self.P.get('opts') or {}).get('embeddecl'):
                body.append('//go:embed embedded.txt\nvar embeddedText string\n\n// EmbeddedText is copied into the generated file together with the variable it reads.\nfunc EmbeddedText() string { return embeddedText }\n')
            if (self.P.get('opts') or {}).get('filedecl'):
                body.append('// helperCount%d is a non-injector declaration of this injector file.\nvar helperCount%d = %d\n' % (fno, fno, fno))
            name = 'wire.go' if fno == 1 else 'wire_%d.go' % fno
            extra = ['"github.com/google/wire"']
            if fno == 1 and (self.P.get('opts') or {}).get('embeddecl'):
                extra = ['_ "embed"', ''] + extra
            out[name] = self.dotwire('//go:build wireinject\n// +build wireinject\n\npackage %s\n\n%s%s'
                                     % (self.pkgname, self.imports('a', used, extra), '\n'.join(body)))
        return out

    def drive_file(self, runtime=True):
        used = set()
        out = []
        for ii, inj in enumerate(self.P['injs']):
            params, r, res = self.inj_sig(inj, 'a', used, named=False)
            if inj.get('form') == 'method':
                out.append('// VerifRecv is the receiver of the method templates.\ntype VerifRecv struct{}\n\n')
            out.append('var _ func(%s) %s = %s\n' % (', '.join(params), r, self.callee(inj)))
        body = []
        if runtime:
            for ii, inj in enumerate(self.P['injs']):
                ex = self.case['expect'][ii]
                if ex['verdict'] == 'no' or (inj.get('res') or []):
                    continue
                scheds = ex.get('scheds') or [["", ""]]
                body.append('\tfor si, sched := range [][]string{%s} {' % ', '.join('{%s}' % ', '.join('"%s"' % f for f in s) for s in scheds))
                body.append('\t\trt.Reset(%d, %s, "%s", si+1)' % (self.ci, json.dumps(self.case['key']), inj['name']))
                body.append('\t\tfor _, f := range sched {')
                body.append('\t\t\tfunc() {')
                body.append('\t\t\t\tdefer func() { if r := recover(); r != nil { rt.Panicked(r) } }()')
                body.append('\t\t\t\trt.SetFail(f)')
                args = []
                for j, p in enumerate(inj['params']):
                    body.append('\t\t\t\tx%d := %s' % (j + 1, self.mk(p['type'], 'rt.ArgTok(%d)' % (j + 1), 'a', used)))
                    args.append('x%d' % (j + 1))
                body.append('\t\t\t\trt.Enter(%s)' % ', '.join(args))
                callargs = list(args)
                if inj['va'] and callargs:
                    callargs[-1] += '...'
                lhs = ['v']
                if inj['cl']:
                    lhs.append('cl')
                if inj['er']:
                    lhs.append('err')
                body.append('\t\t\t\t%s := %s(%s)' % (', '.join(lhs), self.callee(inj), ', '.join(callargs)))
                body.append('\t\t\t\trt.Return(&v, %s, %s, %s, %s)' % (
                    'true' if inj['cl'] else 'false', 'cl == nil' if inj['cl'] else 'true',
                    'true' if inj['er'] else 'false', 'err' if inj['er'] else 'nil'))
                if inj['cl']:
                    body.append('\t\t\t\tif cl != nil {\n\t\t\t\t\trt.Invoke()\n\t\t\t\t\tcl()\n\t\t\t\t\trt.Invoked()\n\t\t\t\t}')
                body.append('\t\t\t}()')
                body.append('\t\t}')
                body.append('\t}')
        extra = ['"%s/rt"' % MOD] if body else []
        return ('package %s\n\n%s%s\nfunc VerifDrive() {\n%s\n}\n'
                % (self.pkgname, self.imports('a', used, extra), ''.join(out), '\n'.join(body)))

    def files(self, runtime=True):
        if self.case.get('fam') == 'F':
            return front_files(self)
        if self.case.get('fam') == 'E':
            return value_files(self)
        fs = {}
        for pkg in self.pkgs():
            d = self.pkgdir(pkg)
            fs[d + '/types.go'] = self.types_file(pkg)
            pf = self.providers_file(pkg)
            if pf:
                fs[d + '/providers.go'] = pf
            sf = self.sets_file(pkg)
            if sf:
                fs[d + '/sets.go'] = sf
        for n, txt in self.wire_files().items():
            fs[self.dir + '/' + n] = txt
        fs[self.dir + '/drive.go'] = self.drive_file(runtime)
        if (self.P.get('opts') or {}).get('embeddecl'):
            fs[self.dir + '/embedded.txt'] = 'embedded text\n'
        return fs


FRONT_LIB = '''package %(pkg)s

import (
	"unsafe"

	"github.com/google/wire"
)

type T1 struct {
	A int
	B string
}
type T2 struct{ X int }
type I1 interface{ M() }

func (T1) M()  {}
func (*T2) M() {}

type G1[X any] struct{ V X }

func GF[X any]() X { var z X; return z }
func F1() T1       { return T1{} }
func F2(t T1) T2   { return T2{} }
func mkSet() wire.ProviderSet { return wire.NewSet(F1) }
func mkT() *T1                { return &T1{} }
func pair() (int, wire.ProviderSet) { return 1, wire.NewSet(F1) }

var SetV = wire.NewSet(F1)
var AliasSet = SetV
var intVar = 7

const constC = 3

var tv = T1{}
var ptrT = &tv
var pptr = &ptrT
var anyv interface{} = tv
var arr = []func() T1{F1}
var up = unsafe.Pointer(ptrT)

const fieldConst = "A"

var fieldVar = "A"
var names = []string{"A"}
'''
FRONT_B = '''package b

import "github.com/google/wire"

type U1 struct{ A int }

func NewU1() U1 { return U1{} }

var SetB = wire.NewSet(NewU1)
'''
FRONT_EXPR = {
    'func': 'F1', 'setvar': 'SetV', 'intvar': 'intVar', 'const': 'constC', 'nil': 'nil', 'int-literal': '42', 'string-literal': '"x"',
    'new-named': 'new(T1)', 'new-anon-struct': 'new(struct{ A int })', 'new-ptr': 'new(*T1)', 'new-int': 'new(int)', 'new-iface': 'new(I1)',
    'new-generic': 'new(G1[int])', 'addr-of-var': '&tv', 'ptr-var': 'ptrT', 'nil-conversion': '(*T1)(nil)', 'iface-nil-conversion': '(*I1)(nil)',
    'parenthesized-func': '(F1)', 'parenthesized-new': '(new(T1))', 'conversion': 'int64(3)', 'func-literal': 'func() T1 { return T1{} }',
    'method-value': 'tv.M', 'generic-func': 'GF[int]', 'composite-literal': '[]int{1}', 'struct-literal': 'T1{}', 'call-result': 'mkT()',
    'set-call-result': 'mkSet()', 'field-of-struct-value': 'tv.A', 'index-expr': 'arr[0]', 'star-deref': '*ptrT', 'type-assertion': 'anyv.(T1)',
    'new-named-other-pkg': 'new(b.U1)', 'set-other-pkg': 'b.SetB', 'aliased-set-var': 'AliasSet', 'new-slice': 'new([]int)', 'new-map': 'new(map[string]int)',
    'new-chan': 'new(chan int)', 'new-func': 'new(func())', 'new-array': 'new([2]int)', 'unsafe-ptr': 'up',
}
FRONT_FIELD = {'literal': '"A"', 'const': 'fieldConst', 'var': 'fieldVar', 'concat': '"A" + ""', 'raw-string': '`A`', 'spread': 'names...',
               'star-mixed': '"*", "A"', 'empty': '""', 'int-literal': 'string(rune(65))', 'duplicate': '"A", "A"',
               'repeat-beyond-field-count': '"A", "B", "A"', 'unknown': '"Nope"', 'unexported': '"a"'}


def front_files(rc):
    fr = rc.P['front']
    pos, form = fr['pos'], fr['form']
    pkg = rc.pkgname
    imp = '\t"github.com/google/wire"\n'
    pre = ''
    body = None
    sig = 'func Inject() T1'
    ret = '\treturn T1{}\n'
    if pos != 'special':
        E = FRONT_EXPR.get(form)
        FF = FRONT_FIELD.get(form)
        call = {
            'Build.item': 'wire.Build(%s)' % E,
            'NewSet.item': 'wire.Build(wire.NewSet(%s))' % E,
            'Struct.type': 'wire.Build(wire.Struct(%s, "A"))' % E,
            'Struct.field': 'wire.Build(wire.Struct(new(T1), %s))' % FF,
            'FieldsOf.type': 'wire.Build(wire.FieldsOf(%s, "A"))' % E,
            'FieldsOf.field': 'wire.Build(F1, wire.FieldsOf(new(T1), %s))' % FF,
            'Bind.iface': 'wire.Build(F1, wire.Bind(%s, new(T1)))' % E,
            'Bind.impl': 'wire.Build(F1, wire.Bind(new(I1), %s))' % E,
            'Value.expr': 'wire.Build(wire.Value(%s))' % E,
            'InterfaceValue.iface': 'wire.Build(wire.InterfaceValue(%s, tv))' % E,
            'InterfaceValue.expr': 'wire.Build(wire.InterfaceValue(new(I1), %s))' % E,
        }[pos]
        if 'b.' in call:
            imp += '\tb "%s"\n' % rc.pkgpath('b')
        body = '\t' + call + '\n' + ret
    else:
        W = 'wire.'
        if form == 'dot-import-bind':
            imp = '\t. "github.com/google/wire"\n'
            sig, body = 'func Inject() I1', '\tBuild(F1, Bind(new(I1), new(T1)))\n\treturn nil\n'
        elif form == 'dot-import-build':
            imp = '\t. "github.com/google/wire"\n'
            body = '\tBuild(F1)\n' + ret
        elif form == 'alias-import':
            imp = '\tw "github.com/google/wire"\n'
            sig, body = 'func Inject() I1', '\tw.Build(F1, w.Bind(new(I1), new(T1)))\n\treturn nil\n'
        elif form == 'multi-assign-set-var':
            pre = 'var xx, PairSet = pair()\n\n'
            body = '\t_ = xx\n\twire.Build(PairSet)\n' + ret
            body = '\twire.Build(PairSet)\n' + ret
        elif form == 'multi-name-set-var':
            pre = 'var SA, SB = wire.NewSet(F1), wire.NewSet(F2)\n\n'
            sig, body = 'func Inject() T2', '\twire.Build(SA, SB)\n\treturn T2{}\n'
        elif form == 'build-no-args':
            body = '\twire.Build()\n' + ret
        elif form == 'build-twice':
            body = '\twire.Build(F1)\n\twire.Build(F1)\n' + ret
        elif form == 'build-not-first':
            body = '\tx := 1\n\t_ = x\n\twire.Build(F1)\n' + ret
        elif form == 'generic-injector':
            sig, body = 'func Inject[X any]() T1', '\twire.Build(F1)\n' + ret
        elif form == 'set-var-no-value':
            pre = 'var EmptySet wire.ProviderSet\n\n'
            body = '\twire.Build(F1, EmptySet)\n' + ret
        elif form == 'set-var-composite':
            pre = 'var LitSet = wire.ProviderSet{}\n\n'
            body = '\twire.Build(F1, LitSet)\n' + ret
        elif form == 'struct-no-fields':
            body = '\twire.Build(wire.Struct(new(T1)))\n' + ret
        elif form == 'fieldsof-no-names':
            body = '\twire.Build(F1, wire.FieldsOf(new(T1)))\n' + ret
        elif form == 'fieldsof-too-many':
            sig, body = 'func Inject() int', '\twire.Build(F1, wire.FieldsOf(new(T1), "A", "B", "A"))\n\treturn 0\n'
        elif form == 'newset-of-newset':
            body = '\twire.Build(wire.NewSet(wire.NewSet(F1)))\n' + ret
        elif form == 'build-of-build':
            body = '\twire.Build(wire.Build(F1))\n' + ret
        elif form == 'struct-of-pointer-pointer':
            body = '\twire.Build(wire.Struct(new(*T1), "A"))\n' + ret
        elif form == 'fieldsof-ptr-ptr-ptr':
            sig, body = 'func Inject() int', '\twire.Build(F1, wire.FieldsOf(new(**T1), "A"))\n\treturn 0\n'
        elif form == 'bind-ptr-ptr':
            sig, body = 'func Inject() I1', '\twire.Build(wire.Bind(new(I1), new(**T2)))\n\treturn nil\n'
        elif form == 'build-in-panic':
            body = '\tpanic(wire.Build(F1))\n'
        elif form == 'build-in-return':
            sig, body = 'func Inject() string', '\treturn wire.Build(F1)\n'
        elif form == 'injector-no-result':
            sig, body = 'func Inject()', '\twire.Build(F1)\n'
        elif form in ('other-func-panics-method-call', 'other-func-panics-call-of-call', 'other-func-panics-index-call', 'other-func-no-body'):
            # an ordinary function of the analysed package whose body starts with panic(<call>) of an unusual callee
            arg = {'other-func-panics-method-call': 'errValue().Error()', 'other-func-panics-call-of-call': 'mkFn()()',
                   'other-func-panics-index-call': 'arr[0]()', 'other-func-no-body': ''}[form]
            if form == 'other-func-no-body':
                pre = 'func externalImpl() int\n\n'
            else:
                pre = 'func errValue() error { return nil }\nfunc mkFn() func() string { return func() string { return "x" } }\n\nfunc helper() {\n\tpanic(%s)\n}\n\n' % arg
            body = '\twire.Build(F1)\n' + ret
        elif form == 'injector-four-results':
            sig, body = 'func Inject() (T1, func(), error, int)', '\twire.Build(F1)\n\treturn T1{}, nil, nil, 0\n'
        else:
            raise ValueError(form)
    wire_go = ('//go:build wireinject\n// +build wireinject\n\npackage %s\n\nimport (\n%s)\n\n%s%s {\n%s}\n' % (pkg, imp, pre, sig, body))
    return {rc.dir + '/lib.go': FRONT_LIB % {'pkg': pkg}, rc.dir + '/b/b.go': FRONT_B, rc.dir + '/wire.go': wire_go}


VALUE_HOME = '''package %(pkg)s

import (
	"math"

	"github.com/google/wire"
)

type ST struct {
	A int
	b int
}

func (s ST) Meth() int { return s.A + 100 }

type MyInt int
type MyFn func() int

var ExpInt = 7
var unexpInt = 8

const ExpC = 3
const unexpC = 4

var ExpStr = "hello"
var ExpArr = [3]int{1, 2, 3}
var ExpSl = []int{1, 2, 3, 4, 5, 6}
var ExpMap = map[string]int{"k": 5, "a": 1}
var ExpPtr = &ExpInt
var ExpStruct = ST{A: 1, b: 2}
var Calls int

func ExpFn() int { Calls++; return 9 }

var ExpFnVar = ExpFn
var ExpCh = func() chan int { c := make(chan int, 8); c <- 1; c <- 2; c <- 3; c <- 4; return c }()
var ExpAny interface{} = 5
var _ = math.Pi

type Small interface{ A() int }
type Big interface {
	Small
	B() int
}
type bigImpl struct{ n int }

func (b bigImpl) A() int { return b.n }
func (b bigImpl) B() int { return b.n + 1 }

var HeldBig Big = bigImpl{3}
var HeldSmall Small = bigImpl{4}

func bigOf(v interface{}) Big { b, _ := v.(Big); return b }

var SetV = wire.NewSet(%(item)s)

func Home() %(ty)s { return %(expr)s }
'''


def value_files(rc):
    v = rc.P['value']
    e, home, marker = v['e'], v['home'], v['marker']
    expr = e['go'].replace('@', '')
    ty_home = e['sort'].replace('@', '')
    same = home == 'bs'
    if same:
        home = 'b'
    ty_inj = e['sort'].replace('@', 'b.' if home == 'b' else '')
    if marker == 'InterfaceValue:Big':
        item = 'wire.InterfaceValue(new(Big), %s)' % expr
        ty_home, ty_inj = 'Big', ('b.' if home == 'b' else '') + 'Big'
        homeexpr = 'Big(bigOf(%s))' % expr
    elif marker == 'InterfaceValue':
        item = 'wire.InterfaceValue(new(interface{}), %s)' % expr
        ty_home = ty_inj = 'interface{}'
        homeexpr = expr
    else:
        item = 'wire.Value(%s)' % expr
        homeexpr = expr
    pkg = rc.pkgname
    fs = {}
    hp = pkg if (home == 'a' or same) else 'b'
    fs[rc.pkgdir(home) + '/home.go'] = VALUE_HOME % {'pkg': hp, 'item': item, 'ty': ty_home, 'expr': homeexpr}
    q = '' if home == 'a' else 'b.'
    imp = '\t"github.com/google/wire"\n' + ('' if home == 'a' else '\tb "%s"\n' % rc.pkgpath('b'))
    fs[rc.dir + '/wire.go'] = ('//go:build wireinject\n// +build wireinject\n\npackage %s\n\nimport (\n%s)\n\nfunc Inject() %s {\n\tpanic(wire.Build(%sSetV))\n}\n'
                               % (pkg, imp, ty_inj, q))
    imp2 = '\t"%s/rt"\n' % MOD + ('' if home == 'a' else '\tb "%s"\n' % rc.pkgpath('b'))
    fs[rc.dir + '/drive.go'] = ('package %s\n\nimport (\n%s)\n\nvar _ func() %s = Inject\n\nfunc VerifDrive() {\n\trt.Reset(%d, %s, "Inject", 1)\n'
                                '\trt.Note("home", %sHome())\n\trt.Note("inj", Inject())\n\trt.Note("inj", Inject())\n}\n'
                                % (pkg, imp2, ty_inj, rc.ci, json.dumps(rc.case['key']), q))
    return fs


def write_files(root, fs):
    for rel, txt in fs.items():
        p = os.path.join(root, rel)
        os.makedirs(os.path.dirname(p), exist_ok=True)
        with open(p, 'w') as f:
            f.write(txt)


def main_file(cases):
    """cmd/drv/main.go importing the given Case objects' injector packages."""
    imps = ''.join('\t%s "%s"\n' % (c.pkgname, c.pkgpath('a')) for c in cases)
    calls = ''.join('\t%s.VerifDrive()\n' % c.pkgname for c in cases)
    return 'package main\n\nimport (\n\t"%s/rt"\n%s)\n\nfunc main() {\n\trt.Open()\n\tdefer rt.Close()\n%s}\n' % (MOD, imps, calls)
