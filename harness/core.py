"""Core of the harness: scratch dirs, building wire from /repo, running TLC, running the
real tool on rendered packages, collecting observations.  No Wire semantics here."""
import os, sys, re, json, time, shutil, subprocess, tempfile, random, hashlib
from concurrent.futures import ThreadPoolExecutor

import render

VERIF = os.path.dirname(os.path.dirname(os.path.abspath(__file__)))
REPO = os.environ.get('VERIF_REPO', '/repo')
SPEC = os.path.join(VERIF, 'spec')
OUTBASE = os.environ.get('VERIF_OUT', VERIF)   # evidence/ and replays/ go here (mutant runs redirect it)
NCPU = os.cpu_count() or 4

GOENV = dict(os.environ, GOFLAGS='-mod=mod', GOPROXY='off', GOSUMDB='off', GOTOOLCHAIN='local',
             GONOSUMDB='*', GONOSUMCHECK='1', GOWORK='off')


class Broken(Exception):
    """The check itself could not run (exit 2) - never a violation."""


def log(*a):
    print('[verif]', *a, file=sys.stderr, flush=True)


class Scratch:
    def __init__(self, tag):
        base = os.environ.get('VERIF_SCRATCH_BASE') or tempfile.gettempdir()
        self.dir = tempfile.mkdtemp(prefix='verif-%s-' % tag, dir=base)
        self.keep = bool(os.environ.get('VERIF_KEEP'))

    def path(self, *p):
        return os.path.join(self.dir, *p)

    def cleanup(self):
        if not self.keep:
            shutil.rmtree(self.dir, ignore_errors=True)
        else:
            log('kept scratch', self.dir)


def _limit_mem():
    import resource
    lim = int(os.environ.get('VERIF_TOOL_MEM_GB', '8')) << 30
    resource.setrlimit(resource.RLIMIT_AS, (lim, lim))


def run(cmd, cwd=None, env=None, timeout=None, stdin=None, limit_mem=False):
    t0 = time.time()
    try:
        p = subprocess.run(cmd, cwd=cwd, env=env or GOENV, timeout=timeout, input=stdin,
                           stdout=subprocess.PIPE, stderr=subprocess.PIPE, preexec_fn=_limit_mem if limit_mem else None)
        return p.returncode, p.stdout.decode('utf-8', 'replace'), p.stderr.decode('utf-8', 'replace'), time.time() - t0
    except subprocess.TimeoutExpired as e:
        return -9, (e.stdout or b'').decode('utf-8', 'replace'), (e.stderr or b'').decode('utf-8', 'replace'), time.time() - t0


def trim_build_cache(min_free_gb=30):
    """Every rendered package leaves objects in the Go build cache (tens of GB after a day of runs; Go itself only trims
    entries older than five days).  When the disk that holds the cache runs low, empty the cache before building."""
    try:
        rc, so, se, dt = run(['go', 'env', 'GOCACHE'])
        d = so.strip()
        if rc == 0 and d and os.path.isdir(d) and shutil.disk_usage(d).free < min_free_gb << 30:
            log('less than %d GB free on the disk of the Go build cache: go clean -cache' % min_free_gb)
            run(['go', 'clean', '-cache'], timeout=1800)
    except Exception as e:       # never a reason to fail a check
        log('build cache not trimmed: %s' % e)


# ---------------------------------------------------------------- wire binary
def build_wire(sc, tags='verif'):
    out = sc.path('wire')
    rc, so, se, dt = run(['go', 'build', '-tags', tags, '-o', out, './cmd/wire'], cwd=REPO, timeout=600)
    if rc != 0:
        raise Broken('cannot build wire from %s: %s' % (REPO, se[-2000:]))
    return out


# ---------------------------------------------------------------- TLC
def tlc(sc, name, module_text, cfg_text='', workers=1, timeout=1800, extra_args=(), java_opts=None):
    """Run TLC on a generated root module inside a private copy of spec/. Returns (rc, stdout)."""
    d = sc.path('tlc-' + name)
    if not os.path.isdir(d):
        os.makedirs(d)
        for f in os.listdir(SPEC):
            if f.endswith('.tla') or f.endswith('.cfg'):
                shutil.copy(os.path.join(SPEC, f), d)
    if module_text is not None:
        with open(os.path.join(d, name + '.tla'), 'w') as f:
            f.write(module_text)
    with open(os.path.join(d, name + '.cfg'), 'w') as f:
        f.write(cfg_text)
    env = dict(os.environ)
    # TLC creates an (empty) tlc-<n> directory under java.io.tmpdir on every start: keep it inside the scratch directory
    env['JAVA_TOOL_OPTIONS'] = (java_opts or '-Xss256m') + ' -Djava.io.tmpdir=' + d
    cmd = ['tlc', '-workers', str(workers), '-metadir', os.path.join(d, 'md-' + name), '-noGenerateSpecTE',
           '-config', name + '.cfg'] + list(extra_args) + [name + '.tla']
    rc, so, se, dt = run(cmd, cwd=d, env=env, timeout=timeout)
    shutil.rmtree(os.path.join(d, 'md-' + name), ignore_errors=True)
    return rc, so + se, dt


def tlc_stats(out):
    """states generated / distinct from TLC's summary line."""
    m = re.findall(r'(\d+) states generated, (\d+) distinct states found', out)
    if not m:
        return 0, 0
    g, d = m[-1]
    return int(g), int(d)


def tlc_prints(out, tag):
    """Values printed with PrintT(<<"TAG", v>>) -> list of raw strings after the tag."""
    res = []
    for line in out.splitlines():
        if line.startswith('<<"%s", ' % tag):
            res.append(line[len('<<"%s", ' % tag):-2])
    return res


def export_programs(sc, name, family, extends='WireFamilies', timeout=1800, seed=1):
    """Pass 1: TLC enumerates the family as initial states and prints each program as JSON.
    `family` is either a TLA+ set expression or an Init predicate over the variable p
    (text containing "p ="/"p \\in" - recognised by the substring "(p,")."""
    init = family if re.search(r'\(p[,)]', family) else 'p \\in ' + family
    mod = ('---- MODULE %s ----\nEXTENDS %s, Json\nVARIABLE p\nInit == %s\nNext == UNCHANGED p\n'
           'Emit == PrintT(ToJson(p))\n====\n') % (name, extends, init)
    cfg = 'INIT Init\nNEXT Next\nINVARIANT Emit\nCHECK_DEADLOCK FALSE\n'
    rc, o, dt = tlc(sc, name, mod, cfg, workers=1, timeout=timeout, extra_args=['-seed', str(seed)])
    if rc != 0:
        raise Broken('TLC enumeration of %s failed (rc=%s): %s' % (family, rc, o[-3000:]))
    progs = {}
    for line in o.splitlines():
        if line.startswith('"{'):
            pr = json.loads(json.loads(line))
            progs[pr['key']] = pr
    progs = [progs[k] for k in sorted(progs)]
    if not progs:
        raise Broken('TLC enumeration of %s produced nothing: %s' % (family, o[-2000:]))
    log('enumerated %d programs of %s in %.1fs' % (len(progs), family, dt))
    return progs


def compute_expect(sc, name, progs, extends='WireFamilies', timeout=3600, par=None, caseop='Case'):
    """Pass 2: TLC evaluates WireSem on each program (Case(P)); chunks run as parallel TLC processes."""
    if not progs:
        return []
    par = par or max(1, min(NCPU, (len(progs) + 59) // 60))
    size = (len(progs) + par - 1) // par
    chunks = [progs[i:i + size] for i in range(0, len(progs), size)]

    def one(ix):
        nm = '%s_%d' % (name, ix)
        inp = sc.path(nm + '.in.ndjson')
        out = sc.path(nm + '.out.ndjson')
        with open(inp, 'w') as f:
            for p in chunks[ix]:
                f.write(json.dumps(p) + '\n')
        mod = ('---- MODULE %s ----\nEXTENDS %s, Json\nProgs == ndJsonDeserialize("%s")\n'
               'ASSUME ndJsonSerialize("%s", [i \\in DOMAIN Progs |-> %s(Progs[i])])\n====\n') % (nm, extends, inp, out, caseop)
        rc, o, dt = tlc(sc, nm, mod, '', workers=1, timeout=timeout)
        if rc != 0 or not os.path.exists(out):
            raise Broken('TLC evaluation of WireSem failed (rc=%s): %s' % (rc, o[-3000:]))
        res = [json.loads(l) for l in open(out) if l.strip()]
        shutil.rmtree(sc.path('tlc-' + nm), ignore_errors=True)
        return res
    t0 = time.time()
    with ThreadPoolExecutor(len(chunks)) as ex:
        parts = list(ex.map(one, range(len(chunks))))
    cases = [c for p in parts for c in p]
    if len(cases) != len(progs):
        raise Broken('WireSem evaluation lost cases')
    log('WireSem evaluated on %d programs in %.1fs (%d TLC processes)' % (len(cases), time.time() - t0, len(chunks)))
    return cases


def export_cases(sc, name, family_expr, extends='WireFamilies', timeout=1800, pre_sample=None, seed=1, caseop='Case'):
    """Enumerate a family with TLC, optionally sample programs by seed, evaluate WireSem on them."""
    progs = export_programs(sc, name, family_expr, extends, timeout, seed=seed)
    total = len(progs)
    if pre_sample and len(progs) > pre_sample:
        rnd = random.Random(seed)
        progs = rnd.sample(progs, pre_sample)
        progs.sort(key=lambda p: p['key'])
    cases = compute_expect(sc, name + 'x', progs, extends, timeout, caseop=caseop)
    return cases, total


def sample(cases, k, seed, must=lambda c: False):
    """Deterministic sample of at most k cases (cases satisfying `must` are always kept)."""
    if len(cases) <= k:
        return list(cases)
    rnd = random.Random(seed)
    keep = [c for c in cases if must(c)]
    rest = [c for c in cases if not must(c)]
    rnd.shuffle(rest)
    out = keep + rest[:max(0, k - len(keep))]
    out.sort(key=lambda c: c['key'])
    return out


# ---------------------------------------------------------------- module with rendered cases
class Batch:
    """A scratch Go module holding rendered cases c00001.."""

    def __init__(self, sc, cases, name='mod', runtime=True, start=1):
        self.sc = sc
        self.root = sc.path(name)
        os.makedirs(self.root)
        self.cases = []
        with open(os.path.join(self.root, 'go.mod'), 'w') as f:
            f.write('module %s\n\ngo 1.19\n\nrequire github.com/google/wire v0.0.0\n\nreplace github.com/google/wire => %s\n' % (render.MOD, REPO))
        shutil.copy(os.path.join(REPO, 'go.sum'), os.path.join(self.root, 'go.sum'))
        os.makedirs(os.path.join(self.root, 'rt'))
        shutil.copy(os.path.join(VERIF, 'harness', 'rt', 'rt.go'), os.path.join(self.root, 'rt', 'rt.go'))
        for i, c in enumerate(cases):
            rc = render.Case(c, start + i)
            render.write_files(self.root, rc.files(runtime))
            self.cases.append(rc)
        self.by_dir = {c.dir: c for c in self.cases}

    def write_cases(self, path):
        """cases table for the judge: line number = ci."""
        with open(path, 'w') as f:
            for c in self.cases:
                f.write(json.dumps(c.case) + '\n')


CLASSES = [
    ('ambiguous', re.compile(r'multiple bindings for', re.I)),
    ('missing', re.compile(r'no provider found for', re.I)),
    ('cycle', re.compile(r'\bcycle\b', re.I)),
    ('unused', re.compile(r'\bunused\b', re.I)),
    ('bind-concrete', re.compile(r'does not include a provider for', re.I)),
    ('need-err', re.compile(r'returns error but', re.I)),
    ('need-cleanup', re.compile(r'returns cleanup but', re.I)),
    ('value-access', re.compile(r"can't be used", re.I)),
    ('sig', re.compile(r'wrong signature|multiple parameters of type|multiple fields of type|return type|no return values|too many return values|does not implement|bind interface to itself|is not a field of|prevented from injecting|may not be an interface value|too complex|must be a pointer|must specify|unknown pattern|not a provider', re.I)),
]
POS_RE = re.compile(r'([^\s:]+\.go):(\d+):(\d+)')


def tokenize_diag(rc_case, text, modroot):
    """diagnostic text -> {c: class or 'other', types: [abstract type strings named], pos: bool}"""
    cls = 'other'
    for name, rx in CLASSES:
        if rx.search(text):
            cls = name
            break
    t = text
    # strip package qualifiers of this case so that abstract type strings remain
    for pkg in sorted(rc_case.pkgs(), key=lambda p: -len(rc_case.pkgpath(p))):
        t = t.replace(rc_case.pkgpath(pkg) + '.', '')
    atoms = sorted(rc_case.atoms, key=len, reverse=True)
    types = []
    if atoms:
        rx = re.compile(r'((?:\*|\[\])*)\b(%s)\b' % '|'.join(re.escape(a) for a in atoms))
        for m in rx.finditer(t):
            s = m.group(1) + m.group(2)
            if s not in types:
                types.append(s)
    pos = False
    for m in POS_RE.finditer(text):
        p = m.group(1)
        if os.path.isabs(p):
            if p.startswith(modroot):
                pos = True
        else:
            pos = True
    return {'c': cls, 'types': types, 'pos': pos, 'text': text[:400]}


def split_blocks(stderr):
    """wire's stderr -> list of message blocks (first line without the 'wire: ' prefix + continuation lines)."""
    blocks = []
    for line in stderr.splitlines():
        if line.startswith('wire: '):
            blocks.append(line[6:])
        elif blocks and (line.startswith('\t') or line.startswith(' ')):
            blocks[-1] += '\n' + line
        elif line.strip():
            blocks.append(line)
    return blocks


def parse_show(rc_case, stdout):
    """`wire show` stdout -> the listing of this case's sets and injectors in abstract terms."""
    paths = {rc_case.pkgpath(p): p for p in rc_case.pkgs()}

    def abst(t):
        t = t.strip()
        for path in sorted(paths, key=len, reverse=True):
            t = t.replace(path + '.', '')
        return t
    # Go names of renamed sets back to their abstract names
    back = {(s['pkg'], rc_case.nm(s['name'])): s['name'] for s in rc_case.P.get('sets', [])}
    unname = lambda pkg, n: back.get((pkg, n), n)
    sets, injectors = [], []
    cur = None
    grp = None
    mode = None
    for line in stdout.splitlines():
        m = re.match(r'^"([^"]+)"\.(\w+)$', line)
        if m:
            cur = None
            mode = 'set'
            if m.group(1) in paths:
                cur = {'id': paths[m.group(1)] + '.' + unname(paths[m.group(1)], m.group(2)), 'includes': [], 'groups': []}
                sets.append(cur)
            continue
        if line.strip() == 'Injectors:':
            mode = 'inj'
            cur = None
            continue
        m = re.match(r'^\t"([^"]+)"\.(\w+)$', line)
        if m:
            if mode == 'inj':
                if m.group(1) in paths:
                    injectors.append(m.group(2))
            elif cur is not None:
                cur['includes'].append((paths.get(m.group(1)) or m.group(1)) + '.' + unname(paths.get(m.group(1)), m.group(2)))
            continue
        if cur is None:
            continue
        m = re.match(r'^\tOutputs given (.*):$', line)
        if m:
            ins = [] if m.group(1) == 'no inputs' else [abst(x) for x in m.group(1).split(', ')]
            grp = {'inputs': ins, 'outputs': []}
            cur['groups'].append(grp)
            continue
        if line.startswith('\t\t\tat '):
            continue
        if line.startswith('\t\t') and grp is not None:
            grp['outputs'].append(abst(line))
    return {'sets': sets, 'injectors': injectors}


def frame_ok(path, pkgname):
    """framing facts of a generated file: generated-code marker first, the !wireinject constraint before the package
    clause, the right package clause (a projection of the bytes; the judge decides what to require)"""
    try:
        txt = open(path, errors='replace').read()
    except OSError:
        return False
    m = re.search(r'^package (\w+)$', txt, re.M)
    if not m:
        return False
    head = txt[:m.start()]
    return bool(re.search(r'^// Code generated by Wire\. DO NOT EDIT\.$', head, re.M)
                and re.search(r'^//\s*(go:build|\+build) !wireinject$', head, re.M) and m.group(1) == pkgname)


PANIC_RE = re.compile(r'^(panic: |goroutine \d+ \[|fatal error: )', re.M)


class ToolRun:
    """Runs `wire <cmd>` over packages of a batch, chunked, bisecting crashes/hangs."""

    def __init__(self, batch, wire, cmd='gen', chunk=150, timeout=120, args=(), single_timeout=20):
        self.b, self.wire, self.cmd, self.chunk, self.timeout, self.args = batch, wire, cmd, chunk, timeout, list(args)
        self.single_timeout = single_timeout
        self.obs = {}   # dir -> observation
        self.invocations = 0

    def run_all(self, dirs=None, par=None):
        dirs = dirs or [c.dir for c in self.b.cases]
        chunks = [dirs[i:i + self.chunk] for i in range(0, len(dirs), self.chunk)]
        par = par or max(1, min(len(chunks), NCPU // 3))
        with ThreadPoolExecutor(par) as ex:
            list(ex.map(self.run_chunk, chunks))
        return self.obs

    def run_chunk(self, dirs):
        pats = ['./' + d + ('/...' if self.cmd == 'show' else '') for d in dirs]
        before = {d: self.gen_state(d) for d in dirs}
        env = None
        stats = None
        if self.chunk == 1:
            stats = os.path.join(self.b.root, dirs[0], '.verif_stats.json')
            env = dict(GOENV, WIRE_VERIF_STATS=stats)
        rc, so, se, dt = run([self.wire, self.cmd] + self.args + pats, cwd=self.b.root, limit_mem=True, env=env,
                             timeout=self.timeout if len(dirs) > 1 else self.single_timeout)
        self.work = getattr(self, 'work', {})
        if stats and os.path.exists(stats):
            try:
                self.work[dirs[0]] = json.load(open(stats))
            except ValueError:
                pass
            os.remove(stats)
        self.invocations += 1
        if rc == -9 and len(dirs) == 1:
            # a single package that timed out: before calling it a hang, give it three times as long once more
            # (the machine may just be busy); a search that explodes does not finish in that time either
            rc, so, se, dt = run([self.wire, self.cmd] + self.args + pats, cwd=self.b.root, limit_mem=True, env=env,
                                 timeout=self.single_timeout * 3)
        crashed = rc == -9 or rc == 2 and PANIC_RE.search(se) or (rc not in (0, 1) and self.cmd != 'diff')
        if crashed and len(dirs) > 1:
            # a hang / crash / out-of-memory somewhere in the chunk: isolate it by running every package alone
            for d in dirs:      # undo partial output of the aborted invocation
                if before[d] is None and self.gen_state(d) is not None:
                    try:
                        os.remove(os.path.join(self.b.root, d, 'wire_gen.go'))
                    except OSError:
                        pass
            with ThreadPoolExecutor(6) as ex:
                list(ex.map(lambda d: self.run_chunk([d]), dirs))
            return
        self.parse(dirs, rc, so, se, dt, before)

    def gen_state(self, d):
        p = os.path.join(self.b.root, d, 'wire_gen.go')
        try:
            st = os.stat(p)
            return (st.st_mtime_ns, st.st_size)
        except OSError:
            return None

    def parse(self, dirs, rc, so, se, dt, before):
        modroot = self.b.root
        per = {d: [] for d in dirs}
        failed = {d: False for d in dirs}
        unattributed = []
        pending = []
        load_failed = False
        for blk in split_blocks(se):
            m = re.match(r'%s/(c\d{5}): generate failed' % re.escape(render.MOD), blk)
            if m:
                d = m.group(1)
                if d in per:
                    per[d] += pending
                    failed[d] = True
                pending = []
                continue
            if re.match(r'%s/(c\d{5}): wrote ' % re.escape(render.MOD), blk):
                continue
            if blk in ('at least one generate failure', 'error loading packages'):
                continue
            if blk.startswith('Warning:'):       # deprecation warnings are not diagnostics of a failure
                continue
            if blk == 'generate failed':
                load_failed = True
                continue
            pending.append(blk)
        # blocks not followed by a per-package marker: attribute by position path
        for blk in pending:
            m = re.search(r'/(c\d{5})/', blk)
            if m and m.group(1) in per:
                per[m.group(1)].append(blk)
                failed[m.group(1)] = True
            else:
                unattributed.append(blk)
        panic = bool(PANIC_RE.search(se))
        hang = rc == -9
        for d in dirs:
            c = self.b.by_dir[d]
            after = self.gen_state(d)
            o = {'ci': c.ci, 'key': c.case['key'], 'cmd': self.cmd, 'rc': rc,
                 'failed': bool(failed[d] or ((panic or hang or load_failed) and len(dirs) == 1) or (rc != 0 and len(dirs) == 1)),
                 'panic': bool(panic and len(dirs) == 1), 'hang': bool(hang and len(dirs) == 1),
                 'loadfail': load_failed,
                 'diags': [tokenize_diag(c, b, modroot) for b in per[d]],
                 'wrote': after is not None and after != before[d],
                 'present': after is not None,
                 'unattributed': len(unattributed), 'wall': round(dt, 3), 'built': 'na'}
            if len(dirs) == 1 and unattributed and not o['diags']:
                o['diags'] = [tokenize_diag(c, b, modroot) for b in unattributed]
            if (panic or hang) and len(dirs) == 1:
                o['stderr_tail'] = se[-1500:]
            o['frame_ok'] = True
            if o['wrote'] and self.cmd == 'gen':
                o['frame_ok'] = frame_ok(os.path.join(self.b.root, d, 'wire_gen.go'), c.pkgname)
            if self.cmd == 'show':
                o.update(parse_show(c, so))
            w = getattr(self, 'work', {}).get(d)
            o['work_acyclic'] = (w or {}).get('acyclic', -1)     # -1: no counter (hooks absent or crash)
            o['work_solve'] = (w or {}).get('solve', -1)
            self.obs[d] = o


def go_build(batch, dirs, chunk=200):
    """go build (default tags) of the injector packages; returns {dir: error text or ''}."""
    res = {d: '' for d in dirs}
    chunks = [dirs[i:i + chunk] for i in range(0, len(dirs), chunk)]

    def one(ds):
        rc, so, se, dt = run(['go', 'build'] + ['./' + d for d in ds], cwd=batch.root, timeout=1200)
        if rc == 0:
            return
        cur = None
        matched = False
        for line in se.splitlines():
            m = re.match(r'# %s/(c\d{5})(/\S*)?' % re.escape(render.MOD), line)
            if m:
                cur = m.group(1)
                continue
            if cur and cur in res:
                res[cur] += line + '\n'
                matched = True
            else:
                # errors reported before compilation (syntax errors found while listing) carry no "# package" header
                m2 = re.match(r'(c\d{5})/', line)
                if m2 and m2.group(1) in res:
                    res[m2.group(1)] += line + '\n'
                    matched = True
        if not matched:
            raise Broken('go build failed without attributable package: ' + se[-2000:])
    with ThreadPoolExecutor(max(1, min(len(chunks), 4))) as ex:
        list(ex.map(one, chunks))
    return res


def drive(batch, dirs, name='drv'):
    """Build and run the driver over the given (built) packages; returns path of the trace file."""
    cs = [batch.by_dir[d] for d in dirs]
    d = os.path.join(batch.root, 'cmd', name)
    os.makedirs(d, exist_ok=True)
    with open(os.path.join(d, 'main.go'), 'w') as f:
        f.write(render.main_file(cs))
    exe = batch.sc.path(name + '.exe')
    rc, so, se, dt = run(['go', 'build', '-o', exe, './cmd/' + name], cwd=batch.root, timeout=1800)
    if rc != 0:
        raise Broken('driver build failed: ' + se[-3000:])
    trace = batch.sc.path(name + '.trace.ndjson')
    env = dict(GOENV, VERIF_TRACE=trace)
    rc, so, se, dt = run([exe], cwd=batch.root, env=env, timeout=1800)
    if rc != 0:
        raise Broken('driver run failed rc=%s: %s' % (rc, se[-3000:]))
    return trace


# ---------------------------------------------------------------- evidence / results
class Result:
    def __init__(self, pid, tier, seed, level):
        self.pid, self.tier, self.seed, self.level = pid, tier, seed, level
        self.t0 = time.time()
        self.violations = []     # (what, replay_path)
        self.known = []
        # states / transitions: distinct and generated states of the design-level TLC model-checking runs of this check
        self.cov = {'evaluations': 0, 'distinct_nontrivial': 0, 'rule': '', 'samples': [], 'states': 0,
                    'transitions': 0, 'traces_validated_against_impl': 0, 'exhaustive': False}
        self.assumptions = []

    def write(self):
        ev = {'property_id': self.pid, 'tier': self.tier, 'seed': self.seed, 'level': self.level,
              'coverage': self.cov, 'assumptions': self.assumptions, 'wall_s': round(time.time() - self.t0, 1),
              'violations': len(self.violations)}
        if self.cov.get('states', 0) < 1 or self.cov.get('transitions', 0) < 1:
            # level-specific keys absent: fall back on the generic ones (schema: generic_fallback)
            for k in ('states', 'transitions'):
                self.cov.pop(k, None)
        os.makedirs(os.path.join(OUTBASE, 'evidence'), exist_ok=True)
        with open(os.path.join(OUTBASE, 'evidence', self.pid + '.json'), 'w') as f:
            json.dump(ev, f, indent=1, sort_keys=True)
        return ev


def replay_dir(pid, key):
    h = hashlib.sha1(key.encode()).hexdigest()[:10]
    d = os.path.join(OUTBASE, 'replays', pid, h)
    os.makedirs(d, exist_ok=True)
    return d


def load_known():
    p = os.path.join(VERIF, 'known_findings.json')
    if not os.path.exists(p):
        return []
    return json.load(open(p)).get('findings', [])
