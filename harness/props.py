"""Per-property decision procedures (DESIGN.md section 6)."""
import os, json, sys
import core, pipeline
from core import log, Broken

W_ONLY = (True, False, False)
E_C = (False, True, True)
ALL = (True, True, True)


def verdict(c):
    vs = [e['verdict'] for e in c['expect']]
    return 'no' if 'no' in vs else ('free' if 'free' in vs else 'yes')


def reasons(c):
    r = set()
    for e in c['expect']:
        r |= set(e['reasons'])
    return r


def G(n, kinds='all', wraps=('set', 'dir')):
    return 'FamilyG(p, %d, "%s", {%s})' % (n, kinds, ', '.join('"%s"' % w for w in wraps))


def only_success(cases):
    out = []
    for c in cases:
        c = json.loads(json.dumps(c))
        for e in c['expect']:
            if e.get('scheds'):
                e['scheds'] = [["", ""]]
        out.append(c)
    return out


# ------------------------------------------------------------------ C06
def C06(ctx):
    ctx.rules.append('family G: every digraph on n types x every node kind {provider, injector parameter, absent}; '
                     'non-trivial = a case where a needed type has no source (WireSem: Missing # {}) ; '
                     'judge: rejected, no output, a no-provider diagnostic naming a type of Missing')
    cases = ctx.export(G(3))
    miss = lambda c: 'missing' in reasons(c)
    if ctx.quick:
        cases = ctx.sample([c for c in cases if miss(c) or verdict(c) == 'yes'], 700, must=lambda c: False)
    ctx.res.cov['exhaustive'] = not ctx.quick
    ctx.design_analyze(cases, limit=600 if ctx.quick else 2000, label='family G n<=3 ')
    ctx.run(cases, nontrivial=miss, runtime=False)
    ctx.rules.append('family X: a needed type missing behind a binding (directly and two levels down), behind a "*" struct field carrying a foreign struct tag, '
                     'in the first / second of two injector files of one package; family B/S near misses (no binding for an interface, *F from a value struct)')
    ctx.run(ctx.export('FamilyX(p, {"star-foreign-tag-missing", "star-foreign-tag-ok", "two-files-first-missing", "two-files-second-missing", "two-files-ok", "missing-behind-bind", "missing-behind-bind-2", "alias-satisfies", "defined-type-does-not-satisfy", "pointer-does-not-satisfy-value", "value-does-not-satisfy-pointer", "multi-name-var-sets-missing", "missing-under-fieldsof-parent", "same-name-packages-poorer-set"})'), nontrivial=miss, runtime=False, check=True)
    near = [c for c in ctx.export('FamilyB(p)') + ctx.export('FamilyS(p)') if miss(c)]
    ctx.run(near, nontrivial=miss, runtime=False)
    if not ctx.quick:
        big = ctx.export(G(4), pre_sample=12000)
        big = [c for c in big if miss(c)]
        ctx.run(big, nontrivial=miss, runtime=False)


# ------------------------------------------------------------------ C07
def C07(ctx):
    ctx.rules.append('family G with all nodes providers: every digraph incl. self-loops on n<=3 (quick) / n<=4 (thorough), '
                     'as wire.Build(Set) (cyclic part may be unused) and as direct items; non-trivial = HasCycle; '
                     'judge: cyclic => rejected with a cycle diagnostic, acyclic+complete => accepted, always terminates')
    cyc = lambda c: 'cycle' in reasons(c)
    cases = ctx.export(G(3, 'f'))
    ctx.res.cov['exhaustive'] = True
    ctx.rules.append('design level: WireAnalyze (cycle search with one shared visited set marked at pop, roots in every order) is model-checked against WireSem on these digraphs (AcyclicRefines, AcyclicWork, Termination); '
                     'conformance: for a sample of accepted programs wire is run per package with the verif hooks and the loop-iteration counters of verifyAcyclic and solve are compared with the counts the WireAnalyze machine predicts (reported as workpred_matches / workpred_mismatches: conformance of the model, not a verdict); the verdict uses WorkBound only')
    pred = ctx.design_analyze(cases, limit=1100 if ctx.quick else 1100, label='all digraphs n<=3 ')
    ctx.run(cases, nontrivial=cyc, runtime=False)
    acc = ctx.sample([c for c in ctx.export(G(3)) if verdict(c) == 'yes'], 60 if ctx.quick else 300)
    pred2 = ctx.design_analyze(acc, label='accepted programs with parameters ')
    for c in acc:
        if c['key'] in pred2:
            c['workpred'] = sorted(list(x) for x in pred2[c['key']])
    ctx.run(acc, nontrivial=lambda c: True, runtime=False, build=False, single=True)
    big = ctx.export(G(4, 'f', ('set',)), pre_sample=300 if ctx.quick else None)
    ctx.run(big, nontrivial=cyc, runtime=False)
    ctx.rules.append('split: the providers of every digraph (n=3; sample of n=4 in thorough) distributed over two sets joined by a set without providers of its own; '
                     'scaling: diamond lattices of depth 10/20/40 (2^40 paths) and chains of depth 50/150, with and without a back edge, each under a 20 s timeout (normal: well under 1 s)')
    ctx.rules.append('random digraphs on 5 and 6 providers (300 / 3000 edge sets of about n+2 edges, seed-driven): cycles entered from outside at depth >= 3 through nodes with several parameters')
    rnd = ctx.export('FamilyGRand(p, 5, %d, 7)' % (200 if ctx.quick else 2000)) + ctx.export('FamilyGRand(p, 6, %d, 8)' % (150 if ctx.quick else 1500)) \
        + ctx.export('FamilyLasso(p)')      # paths of 0..3 providers into cycles of 1..3, one provider with a second parameter before/after the continuing one
    ctx.design_analyze(rnd, limit=150 if ctx.quick else 600, label='random digraphs n=5,6 ', free_roots=False)
    ctx.run(rnd, nontrivial=cyc, runtime=False)
    sp = ctx.export('FamilyGSplit(p, 3)', pre_sample=300 if ctx.quick else None)
    ctx.run(sp, nontrivial=cyc, runtime=False)
    if not ctx.quick:
        ctx.run(ctx.export('FamilyGSplit(p, 4)', pre_sample=4000), nontrivial=cyc, runtime=False)
    # termination on incomplete programs too: a missing input under a binding / under the parent of a selected field
    ctx.run(ctx.export('FamilyX(p, {"missing-under-fieldsof-parent", "missing-behind-bind", "missing-behind-bind-2", "two-fieldsof-items"})'), nontrivial=lambda c: True, runtime=False)
    # cycles through unnamed composite types, and a cycle behind an interface the search meets first
    ctx.run(ctx.export('FamilyX(p, {"cycle-through-pointer-types", "cycle-behind-bound-interface"})'), nontrivial=lambda c: True, runtime=False, check=True)
    # every command terminates: show on sets with bindings whose interface is consumed inside the set
    ctx.run(ctx.export('FamilyB(p)', extends='WireShow', caseop='CaseShow', pre_sample=(60 if ctx.quick else None)), nontrivial=lambda c: True, runtime=False, check=True, show=True)
    sc = ctx.export('FamilyLattice(p, {6, 10, 20, 40})') + ctx.export('FamilyChain(p, {50, 150})')
    # one package per invocation, with the verif hooks' loop counters: iterations of the cycle search and of the planner
    # must stay within WorkBound (quadratic in nodes + edges, far below the number of paths); without counters the timeout is the criterion
    ctx.run(sc, nontrivial=lambda c: True, runtime=False, build=False, single=True)


# ------------------------------------------------------------------ C02
def C02(ctx):
    ctx.rules.append('accepted programs of family G (all DAG shapes with fan-in/out, shared dependencies, parameters); '
                     'each generated injector is executed twice with fresh argument tokens; non-trivial = at least two providers run; '
                     'judge: WireInjectTrace with CheckW (argument identities = values of the designated sources, at most once, only if needed, result identity)')
    cases = [c for c in ctx.export(G(3)) if verdict(c) == 'yes']
    nt = lambda c: len(c['expect'][0]['funcs']) >= 2
    if ctx.quick:
        cases = ctx.sample(cases, 400, must=nt)
    ctx.design_analyze(cases, limit=400, label='accepted programs of family G ')
    ctx.run(cases, nontrivial=nt, runtime=True, switches=W_ONLY)
    ctx.rules.append('accepted programs of families R (n<=3, all flavours), B (bindings), S (struct and field providers), M (nested sets over packages), T (variadic injector), '
                     'X (sets declared in one multi-name var spec, injectors returning an argument, several injectors in several files)')
    more = ctx.export('FamilyR(p, 3)') + ctx.export('FamilyB(p)') + ctx.export('FamilyS(p)') + ctx.export('FamilyM(p, {1, 2, 3})', pre_sample=200 if ctx.quick else 3000) \
        + ctx.export('FamilyR2(p, 3)', pre_sample=150 if ctx.quick else None)
    more = [c for c in more if verdict(c) == 'yes']
    if ctx.quick:
        more = ctx.sample(more, 500)
    more += ctx.export('FamilyX(p, {"multi-name-var-sets", "arg-returned-through-bind", "arg-returned-directly", "two-files-ok", "star-foreign-tag-ok", "two-unnamed-values", "struct-fields-from-params-crossed", "variadic-err-provider", "bind-three-sets-deep", "bind-to-field-type", "value-in-shared-set"})')
    # providers of a package named like the injector's own package / like names the generator invents: the call must still reach them
    more += ctx.export('FamilyNOne(p, "pkg:b", {"@same", "err", "t1", "cleanup"})', extends='WireNames')
    ctx.design_inject(cases + more, maxcalls=2, label='families G R B S M X ')
    ctx.design_analyze(cases + more, limit=400 if ctx.quick else 2500, label='families G R B S M X ', free_roots=False)
    ctx.run(only_success(more), nontrivial=nt, runtime=True, switches=W_ONLY)
    if not ctx.quick:
        big = [c for c in ctx.export(G(4), pre_sample=30000) if verdict(c) == 'yes']
        big += ctx.export('FamilyRBig(p, 6, 200)') + ctx.export('FamilyRBig(p, 7, 200)')      # random DAGs on 6 and 7 providers
        ctx.run(only_success(big), nontrivial=nt, runtime=True, switches=W_ONLY)


# ------------------------------------------------------------------ C03 / C04
def n_fault_points(c):
    return sum(1 for s in c['expect'][0].get('scheds', []) if len(s) == 1)


def C03(ctx):
    ctx.rules.append('family R: every DAG shape of n providers x every flavour assignment {plain,error,cleanup,cleanup+error}^n x injector declaring '
                     'cleanup+error or the minimum; schedules exported by TLC: two clean calls, every single failure point, fail/ok/fail and ok/fail/ok; '
                     'non-trivial = at least one failure point with a cleanup acquired before it; '
                     'judge: WireInjectTrace with CheckE+CheckC (no call after the failure, reverse unwinding exactly once, own cleanup not called, zero value, nil cleanup, that very error, no state leaks into the next call)')
    nt = lambda c: any(l['er'] for l in c['prog']['leaves']) and any(l['cl'] for l in c['prog']['leaves'])
    cases = []
    for n in (1, 2, 3):
        cases += ctx.export('FamilyR(p, %d)' % n)
    ctx.res.cov['exhaustive'] = True
    ctx.res.cov['fault_points'] = sum(n_fault_points(c) for c in cases)
    ctx.design_inject(cases, maxcalls=3, label='family R n<=3 ')
    ctx.run(cases, nontrivial=nt, runtime=True, switches=E_C)
    big = ctx.export('FamilyR(p, 4)', pre_sample=300 if ctx.quick else None)
    ctx.res.cov['fault_points'] += sum(n_fault_points(c) for c in big)
    ctx.run(big, nontrivial=nt, runtime=True, switches=E_C)
    ctx.rules.append('family T: the result type is a named type / an alias of each of 20 Go type kinds (zero value on the error path per kind), variadic injector; '
                     'chains of 12 (quick) / 12 and 25 (thorough) cleanup+error providers (more than ten generated cleanup names) failing at the first, middle and last provider')
    extra = ctx.export('FamilyT(p)') + ctx.export('FamilyChain(p, {12})' if ctx.quick else 'FamilyChain(p, {11, 12, 25})') \
        + ctx.export('FamilyX(p, {"variadic-err-provider", "iface-result-bound-to-value-struct"})')
    ctx.rules.append('family R2: chains whose links are a direct parameter, an interface binding, a wire.Struct pointer or a FieldsOf selection (4^(n-1) link assignments x 4^n flavours; n=3 sampled quick / complete thorough, n=4 sampled thorough): failures and cleanups interleaved with steps that are not provider calls')
    r2 = ctx.export('FamilyR2(p, 3)', pre_sample=200 if ctx.quick else None)
    if not ctx.quick:
        r2 += ctx.export('FamilyR2(p, 4)', pre_sample=1500)
    ctx.design_inject(r2, maxcalls=2, limit=200 if ctx.quick else 600, label='family R2 ')
    extra += r2
    # the generated error / cleanup variables next to live package-level variables called err, err2, cleanup, cleanup2
    extra += ctx.export('FamilyNVar(p, {"err", "err2", "cleanup", "cleanup2"})', extends='WireNames')
    ctx.res.cov['fault_points'] += sum(n_fault_points(c) for c in extra)
    ctx.run(extra, nontrivial=lambda c: True, runtime=True, switches=E_C)
    if not ctx.quick:
        b5 = ctx.export('FamilyR(p, 5)', pre_sample=1500) + ctx.export('FamilyRBig(p, 6, 150)') + ctx.export('FamilyRBig(p, 7, 150)')
        ctx.res.cov['fault_points'] += sum(n_fault_points(c) for c in b5)
        ctx.run(b5, nontrivial=nt, runtime=True, switches=E_C)


def C04(ctx):
    ctx.rules.append('family R (as C03) on success schedules only; non-trivial = at least two cleanup-returning providers; '
                     'judge: WireInjectTrace with CheckC (no cleanup before the caller invokes, non-nil aggregate even when empty, reverse acquisition order, each exactly once)')
    nt = lambda c: sum(1 for l in c['prog']['leaves'] if l['cl']) >= 2
    cases = []
    for n in (1, 2, 3):
        cases += ctx.export('FamilyR(p, %d)' % n)
    ctx.res.cov['exhaustive'] = True
    ctx.design_inject(cases, maxcalls=2, label='family R n<=3 ')
    ctx.run(only_success(cases), nontrivial=nt, runtime=True, switches=(False, False, True))
    big = ctx.export('FamilyR(p, 4)', pre_sample=500 if ctx.quick else None)
    ctx.run(only_success(big), nontrivial=nt, runtime=True, switches=(False, False, True))
    ctx.run(only_success(ctx.export('FamilyChain(p, {12})' if ctx.quick else 'FamilyChain(p, {11, 12, 25})')
                         + ctx.export('FamilyR2(p, 3)', pre_sample=200 if ctx.quick else None)
                         + ctx.export('FamilyNVar(p, {"err", "err2", "cleanup", "cleanup2"})', extends='WireNames')), nontrivial=nt, runtime=True, switches=(False, False, True))
    if not ctx.quick:
        ctx.run(only_success(ctx.export('FamilyR(p, 5)', pre_sample=3000) + ctx.export('FamilyRBig(p, 6, 200)') + ctx.export('FamilyRBig(p, 7, 200)')),
                nontrivial=nt, runtime=True, switches=(False, False, True))


# ------------------------------------------------------------------ C05
def C05(ctx):
    ctx.rules.append('family K: for each colliding type (named, pointer, struct, pointer to struct, interface, unnamed slice) every pair of source kinds that can provide it '
                     '(function, struct provider value/pointer form, value, interface value, binding, field value/pointer form, injector parameter, same set twice) '
                     'x placement (same call, nested vs direct, sibling sets, inside one set, two levels deep, other package) x colliding type needed / not needed; '
                     'every case is non-trivial (WireSem: Ambiguous); judge: rejected, no output, a multiple-bindings diagnostic naming the colliding type; check agrees')
    cases = ctx.export('FamilyK(p, KTypes)')
    bad = [c for c in cases if 'ambiguous' not in reasons(c)]
    if bad:
        raise Broken('family K contains a case WireSem does not find ambiguous: ' + bad[0]['key'])
    ctx.res.cov['exhaustive'] = not ctx.quick
    if ctx.quick:
        # the sample keeps at least one program of every (pair of source kinds, placement) class
        first = {}
        for c in sorted(cases, key=lambda c: c['key']):
            first.setdefault('/'.join(c['key'].split('/')[2:4]), c['key'])
        keep = set(first.values())
        cases = ctx.sample(cases, 700, must=lambda c: c['key'] in keep)
    cases += ctx.export('FamilyX(p, {"same-set-twice-direct", "same-set-twice-in-set", "inline-set-conflict", "same-provider-twice-direct", "same-provider-twice-in-set", "blank-param-conflicts-with-set", "unnamed-param-conflicts-with-set", "multi-name-var-sets-conflict"})')
    ctx.design_analyze(cases, limit=500 if ctx.quick else 1200, label='family K ')
    ctx.run(cases, runtime=False, check=True)


# ------------------------------------------------------------------ C08
def C08(ctx):
    ctx.rules.append('family U: accepted bases (chain, injector returning its own argument, argument through a binding, used binding) x one superfluous direct item of each kind '
                     '(function, struct provider, value, interface value, second binding to the same concrete type, fields, set, set in another package, empty set) '
                     'and programs whose direct items are used only indirectly (two levels down, pointer form only, value form only, pointer-to-field only, binding only, one member of a set); '
                     'plus every program of family G passed directly; non-trivial = WireSem: UnusedDirect # {} or an indirectly used item; '
                     'judge: unused => rejected with an unused diagnostic and no output; contributing => accepted; partially used FieldsOf lists are free')
    nt = lambda c: 'unused' in reasons(c) or c['key'].startswith('U/indirect')
    ucases = ctx.export('FamilyU(p)') + ctx.export('FamilyX(p, {"two-fieldsof-second-unused", "set-used-by-first-injector-only", "two-fieldsof-items", "bind-after-concrete", "inline-set-partly-used", "inline-set-unused", "inline-set-in-named-set", "inline-set-twice", "struct-both-forms-plus-superfluous", "same-name-packages-one-unused", "two-files-first-unused"})')
    ctx.design_analyze(ucases, label='family U ')
    ctx.run(ucases, nontrivial=nt, runtime=True, switches=W_ONLY)
    g = [c for c in ctx.export(G(3, 'all', ('dir',))) if 'unused' in reasons(c) or verdict(c) == 'yes']
    if ctx.quick:
        g = ctx.sample(g, 400)
    ctx.run(g, nontrivial=nt, runtime=False)
    if not ctx.quick:
        g4 = [c for c in ctx.export(G(4, 'all', ('dir',)), pre_sample=15000) if 'unused' in reasons(c)]
        ctx.run(g4, nontrivial=nt, runtime=False)


# ------------------------------------------------------------------ C09
def C09(ctx):
    ctx.rules.append('family Q: every result list of length 0..3 (quick) / 0..4 (thorough) over {value, error, func(), named func type, other func type, alias of error, error-like interface} '
                     'as provider signature (direct / nested / other package / unused corner of a set) and as injector signature x providers needing none/error/cleanup/both; '
                     'identical parameter and field types; non-trivial = every case (distinct shape x placement); '
                     'judge: illegal => rejected with a diagnostic, legal => accepted and the package builds')
    cases = ctx.export('FamilyQ(p, %d)' % (3 if ctx.quick else 4))
    ctx.res.cov['exhaustive'] = True
    ctx.run(cases, runtime=False, check=False)
    # a variadic provider whose fixed parameter has the slice type of the variadic one; zero-call injectors declaring results they do not need
    ctx.run(ctx.export('FamilyX(p, {"variadic-dup-param", "arg-returned-directly-full-sig", "variadic-err-provider", "multi-name-var-sets-badsig", "structlit-dup-fields"})'), nontrivial=lambda c: True, runtime=True, check=True, switches=ALL)


# ------------------------------------------------------------------ C10
def C10(ctx):
    ctx.rules.append('family M: three well-formed bases (plain chain; binding + struct provider; fields of a pointer + value) x every assignment of the leaves to '
                     '{direct, SetA, SetB, SetC nested in SetA} keeping a binding with the provider of its concrete type x {SetB, SetC in the injector package or another} x argument order {as is, reversed, rotated}; '
                     'non-trivial = a variant that uses at least one set; judge: every variant accepted, its injector executed and validated with CheckW against the wiring WireSem assigns, '
                     'and WireSem assigns the same wiring to all variants of a base (checked on the exported expectations)')
    cases = ctx.export('FamilyM(p, {1, 2, 3})', pre_sample=600 if ctx.quick else 6000)
    for c in cases:
        if verdict(c) != 'yes':
            raise Broken('WireSem rejects a regrouping of a well-formed program: ' + c['key'])
    byb = {}
    for c in cases:
        b = c['key'].split('/')[1]
        w = json.dumps(c['expect'][0]['wiring'], sort_keys=True)
        if byb.setdefault(b, w) != w:
            raise Broken('WireSem wiring differs between regroupings of base ' + b)
    cases += ctx.export('FamilyX(p, {"same-name-packages", "two-fieldsof-items", "bind-after-concrete", "two-unnamed-values", "multi-name-var-sets", "same-named-sets-two-packages", "inline-set-partly-used", "inline-set-in-named-set", "sets-in-injector-file", "value-in-shared-set", "set-through-alias-only-path", "set-through-plain-alias-package", "bind-three-sets-deep"})')
    ctx.design_analyze(cases, limit=250 if ctx.quick else 1500, label='family M ')
    ctx.run(cases, nontrivial=lambda c: c['prog']['sets'] != [], runtime=True, switches=W_ONLY)


# ------------------------------------------------------------------ C11
def C11(ctx):
    ctx.rules.append('family B: receiver {value, pointer} x bound form {C, *C} x interface {plain, embedding another, from another package} x how the bound type is provided '
                     '{function, struct provider, value, injector parameter, field} x consumers of I {1,2} x consumers of the bound type {0,1} x position of the binding '
                     '{next to the provider, both in an inner set, inner set lacking the provider, provider in an inner set}; near misses: no binding, self binding, non-implementing type; '
                     'all of it enumerated (exhaustive for the family); non-trivial = every case; judge: accept iff implements, not self, co-located; accepted => all consumers of I and of the bound type observe one value (WireInjectTrace CheckW)')
    cases = ctx.export('FamilyB(p)')
    ctx.res.cov['exhaustive'] = not ctx.quick
    if ctx.quick:
        cases = ctx.sample(cases, 450)
    ctx.design_inject(cases, maxcalls=2, label='family B ')
    ctx.design_analyze(cases, limit=250 if ctx.quick else 1000, label='family B ', free_roots=False)
    ctx.run(cases, runtime=True, switches=W_ONLY)
    ctx.rules.append('family X: binding an interface to an interface that lacks a method, an injector that returns one of several arguments through a binding without calling any provider, '
                     'two sets sharing their first import of which only one provides the bound type')
    ctx.run(ctx.export('FamilyX(p, {"bind-iface-not-implementing", "arg-returned-through-bind", "arg-returned-directly", "shared-import-bind-lacks-concrete", "missing-behind-bind", "bind-to-field-type", "bind-after-concrete", "multi-name-var-sets-bind", "bind-three-sets-deep"})'), runtime=True, switches=W_ONLY)


# ------------------------------------------------------------------ C12
def C12(ctx):
    ctx.rules.append('family S: struct {A T1; B *T2; c T3; D T4 prevented (4 tag spellings); a T5}: wire.Struct with every listed selection incl. "*", "*"+name, unknown, prevented, wrong-case and case-twin names, '
                     'asked for as S1 and *S1; wire.FieldsOf over S1 / *S1 provided by function / parameter / struct provider for subsets of {A,B,c} consumed by value or as pointer into the struct; '
                     'non-trivial = every case; judge: rejected iff a name is unknown/prevented (exact match); at run time exactly the selected fields carry the value of the source of their type, '
                     'all others zero; F is the field of the provided struct and *F aliases it (pointer ordinals)')
    cases = ctx.export('FamilyS(p)') + ctx.export('FamilyX(p, {"struct-fields-from-params-crossed", "two-fieldsof-items", "foreign-struct-exported-name", "embedded-fields-struct", "embedded-fields-fieldsof", "bind-to-field-type"})')
    ctx.res.cov['exhaustive'] = True
    ctx.design_inject(cases, maxcalls=2, label='family S ')
    ctx.run(cases, runtime=True, switches=W_ONLY)


# ------------------------------------------------------------------ C17 / C18 / C19 (command line)
def C17(ctx):
    import cli
    ctx.rules.append('WireCli model-checked exhaustively (every (sources, disk) state x every command); TLC -simulate generates command histories over '
                     '{edit to variant okA/okB/bad/noinj/typeerr, gen (header none/ok/unreadable, prefix, tags, default-command form), diff, check, show, delete output, clobber output with stale/broken/garbage} on two packages; '
                     'each history is replayed against the real binary in a fresh sandbox with a hash snapshot of the whole tree around every command; '
                     'non-trivial = distinct (command, arguments, sources, disk-before) combinations; judge: WireCliTrace with CkStatus+CkFootprint')
    cli.run(ctx, (True, True, False, False), 30 if ctx.quick else 250, 12 if ctx.quick else 20, focus=150 if ctx.quick else 2000)


def C18(ctx):
    import cli
    ctx.rules.append('same machine and histories as C17; the content of every output file after every step is projected by byte comparison with a from-scratch generation '
                     'of the same sources and options in a pristine copy; judge: WireCliTrace with CkRegen (after a successful gen the file is what a fresh checkout gets, gen again changes nothing, diff right after gen exits 0)')
    cli.run(ctx, (False, False, True, False), 30 if ctx.quick else 250, 14 if ctx.quick else 30, focus=100 if ctx.quick else 1500)


def C01(ctx):
    ctx.rules.append('every program of families T (result type a named type / alias of 20 Go type kinds, variadic injector), R (all flavours, n<=3), B, S, K-otherpkg, Q (legal signature shapes), M (sets over three packages), '
                     'U, X (several injectors in several files, foreign structs with unexported fields) for which gen reports success; non-trivial = success reported; '
                     'oracle: go build of the package with default tags, with a typed function-variable assignment per injector (signature identity), judged by TLC (wrote => built)')
    exprs = [('FamilyT(p)', None), ('FamilyR(p, 3)', 120), ('FamilyB(p)', 120), ('FamilyS(p)', None), ('FamilyQ(p, 3)', 200),
             ('FamilyM(p, {1, 2, 3})', 80), ('FamilyU(p)', None), ('FamilyX(p, XVariants)', None), ('FamilyK(p, {"T1"})', 40), (G(3), 120)]
    nt = lambda c: verdict(c) != 'no'
    for expr, k in exprs:
        cases = ctx.export(expr, pre_sample=(k if ctx.quick else (k * 10 if k else None)))
        ctx.run(only_success(cases), nontrivial=nt, runtime=False, build=True)
    # generated files that carry copied declarations and value expressions (import aliases, requalified identifiers)
    import copydecl
    dcs = ctx.export('FamilyD(p)', extends='WireCopyDecl', caseop='CaseD', pre_sample=60 if ctx.quick else None)
    copydecl.run(ctx, dcs)
    ecs = [c for c in ctx.export('FamilyE(p, 1)', extends='WireValueExpr', caseop='CaseE') if verdict(c) != 'no']   # what must be refused is C13's matter
    ctx.run(ecs, nontrivial=nt, runtime=False, build=True)


def C20(ctx):
    ctx.rules.append('family F (WireFront): every argument position of Build/NewSet/Struct/FieldsOf/Bind/Value/InterfaceValue x 40 expression forms '
                     '(identifiers of every object kind, nil, literals, new of named/anonymous/generic/pointer/interface/composite types, address-of, pointer variables, conversions, parenthesised forms, '
                     'function literals, method values, call results, other-package sets), 10 field-name forms, 23 whole-file shapes (dot-imported and aliased wire, multi-value set variables, '
                     'Build in odd places, generic injector, odd result lists); each under gen and under check; family T result kinds; non-trivial = every case; '
                     'judge: exit 0, or non-zero with at least one diagnostic carrying a file:line:col inside the module; never a panic, hang or silent failure')
    cases = ctx.export('FamilyF(p)', extends='WireFront', caseop='CaseF')
    ctx.res.cov['exhaustive'] = True
    ctx.run(cases, runtime=False, check=True, build=False, gate=True, allow_typeerr=())
    ctx.run(only_success(ctx.export('FamilyT(p)')), runtime=False, check=True, build=False)
    # the same criterion for gen, check and show on programs of the semantic families, accepted and rejected for each reason
    # (a missing input below a binding, cycles, conflicts, unused items, field providers consumed inside their own set, ...)
    ctx.rules.append('plus gen, check and show on family X (all variants), samples of G (n<=3), M (bases 2, 3), B, G-split: same criterion')
    for expr, k in [('FamilyX(p, XVariants)', None), (G(3), 150), ('FamilyM(p, {2, 3})', 80), ('FamilyB(p)', 60), ('FamilyGSplit(p, 3)', 60)]:
        cs = ctx.export(expr, extends='WireShow', caseop='CaseShow', pre_sample=(k if ctx.quick else (k * 8 if k else None)))
        ctx.run(cs, runtime=False, check=True, show=True, build=False)


def C13(ctx):
    ctx.rules.append('family E (WireValueExpr): a typed grammar of initialiser expressions - 62 atoms (literals, composite literals of every kind, identifiers exported/unexported/constant, conversions, '
                     'selectors, indexing, 2- and 3-index slicing, dereference, address-of, type assertion, method values, and the forbidden forms: calls of functions / methods / func variables / literals, new, channel receive) '
                     'wrapped in one more (depth 2) or two more (depth 3, thorough) layers of operators, conversions, composite literals, selectors, index and slice expressions; each placed in a set of the injector package and of another package; '
                     'wire.Value and wire.InterfaceValue; non-trivial = every case; judge: MustReject (calls / receives / inaccessible identifiers / interface-typed wire.Value) => rejected with a diagnostic; '
                     'accepted => the package builds, both injector calls return one value (one pointer), equal to the expression evaluated in its home package (descriptions incl. slice capacity and pointer ordinals)')
    cases = ctx.export('FamilyE(p, %d)' % (2 if ctx.quick else 3), extends='WireValueExpr', caseop='CaseE', pre_sample=None if ctx.quick else 9000)
    ctx.res.cov['exhaustive'] = ctx.quick
    ctx.run(cases, runtime=False, notes=True, build=True)
    # value variables are shared per expression *node*, never per expression text or type
    ctx.run(ctx.export('FamilyX(p, {"same-text-values-two-packages", "two-unnamed-values", "value-in-shared-set"})')
            + ctx.export('FamilyNOne(p, "T4", {"U8ber", "A8rger", "Err", "String"})', extends='WireNames'), nontrivial=lambda c: True, runtime=True, switches=ALL)


def names_model(ctx):
    """WireNamesAlloc: the generator's name allocation transcribed to TLA+; TLC checks Fresh / NotKeyword / NoCapture for every
    naming of family N and prints the names it predicts"""
    import re
    cfg = 'INIT AInit\nNEXT ANext\nINVARIANTS AllocOK Emit\nCHECK_DEADLOCK FALSE\n'
    rc, out, dt = core.tlc(ctx.sc, 'WireNamesAlloc', None, cfg, workers=4, timeout=1800)
    if rc != 0 or 'No error has been found' not in out:
        raise Broken('WireNamesAlloc: the allocation model violates its own freshness invariants (a defect of the specification): ' + out[-2500:])
    g, d = core.tlc_stats(out)
    ctx.add_design('WireNamesAlloc (every naming of family N)', g, d, 'invariants Fresh NotKeyword NoCapture of the transcribed allocation (disambiguate, typeVariableName, unexport, export, qualifyImport)')
    pred = {}
    for line in core.tlc_prints(out, 'NAMES'):
        m = re.match(r'"((?:[^"\\\\]|\\\\.)*)", (".*")$', line)
        if m:
            pred[json.loads('"' + m.group(1) + '"')] = json.loads(json.loads(m.group(2)))
    log('WireNamesAlloc model-checked: %d namings, %d predictions (%.1fs)' % (d, len(pred), dt))
    return pred


def names_conformance(ctx, pred, out):
    """conformance of WireNamesAlloc (information, not a verdict): the names in the real wire_gen.go vs the predicted ones"""
    import re
    cov = ctx.res.cov
    for key, (pkgname, txt) in sorted(getattr(out, 'gen', {}).items()):
        if key not in pred:
            continue
        if 'U8' in key or 'A8' in key:        # the string operators of WireNamesAlloc are ASCII
            cov['names_not_modelled_non_ascii'] = cov.get('names_not_modelled_non_ascii', 0) + 1
            continue
        want = json.loads(json.dumps(pred[key]).replace('@PKG', pkgname))
        m = re.search(r'^func Inject\((\w*) ?[^)]*\) \(', txt, re.M)
        body = txt[txt.find('func Inject('):]
        assigns = re.findall(r'^\t(\w+)(?:, (\w+))?(?:, (\w+))? := ', body, re.M)[:4]
        got = {'p0': m.group(1) if m else '?', 'locals': [a[0] for a in assigns],
               'cleanups': [a[1] for a in assigns if a[1]], 'errv': (assigns[0][2] if assigns and assigns[0][2] else '?'),
               'valvar': (re.search(r'^\t(_wire\w+) = ', txt, re.M) or [None, '?'])[1]}
        am = re.search(r'^\t(?:(\w+) )?"[^"]*/b"$', txt, re.M)
        got['alias'] = (am.group(1) or want['alias']) if am else '?'
        ok = all(got[k] == want[k] for k in ('p0', 'locals', 'cleanups', 'errv', 'valvar', 'alias'))
        k = 'names_predicted_exactly' if ok else 'names_prediction_differs'
        cov[k] = cov.get(k, 0) + 1
        if not ok and len(cov.setdefault('names_difference_samples', [])) < 3:
            cov['names_difference_samples'].append({'key': key, 'predicted': want, 'generated': got})


def C14(ctx):
    ctx.rules.append('family N (WireNames): one base program (provider in another package returning value+cleanup+error; provider with three arguments, cleanup and error; provider with cleanup; wire.Value; injector parameter) '
                     'with every pair of 12 nameable slots (4 types, foreign type, 3 provider functions, injector parameter, a package-level variable, the other package name, its import alias) renamed to every pair of names of an adversarial pool '
                     '(err, cleanup, cleanup2, context, string, nil, error, Type, Select, foo, foo2, fooBar, _, unnamed, x1, x1_2, ...); package-level err/cleanup variables are live values so that a capture changes behaviour; '
                     'non-trivial = a naming with at least one non-default name; judge: builds, and the trace under every fault schedule is accepted by WireInjectTrace (all switches) against the SAME wiring as the base naming')
    cases = ctx.export('FamilyN(p)', extends='WireNames', pre_sample=350 if ctx.quick else 5000)
    pred = names_model(ctx)
    out = ctx.run(cases, nontrivial=lambda c: c['key'] != 'N/', runtime=True, switches=ALL, collect_gen=True)
    ctx.run(ctx.export('FamilyX(p, {"foreign-struct-sole-reference", "same-name-packages", "unnamed-params-same-type-name"})')
            + ctx.export('FamilyNTwoB(p)', extends='WireNames'), nontrivial=lambda c: True, runtime=True, switches=ALL)
    names_conformance(ctx, pred, out)
    ctx.run(ctx.export('FamilyX(p, {"two-unnamed-values", "two-files-ok", "multi-name-var-sets"})'), runtime=True, switches=ALL)


def C15(ctx):
    import copydecl
    ctx.rules.append('family D (WireCopyDecl): 35 productions of the declaration/statement/expression grammar (every statement form, labels, closures, shadowing, struct tags, doc comments, generics incl. two type parameters, '
                     'composite literals, 2- and 3-index slices, channel directions, ...) x 6 import contexts (plain, source alias differs from generated alias, dot import, local identifier equal to an import name, two imports with one base name, '
                     'generated alias already taken at package scope); every case non-trivial; judge (WireJudge!CopyOK): every non-injector declaration exactly once and in source order, the package builds with and without the wireinject tag, '
                     'and a probe exercising the declarations observes identical values under both builds')
    cases = ctx.export('FamilyD(p)', extends='WireCopyDecl', caseop='CaseD')
    ctx.res.cov['exhaustive'] = True
    copydecl.run(ctx, cases)
    # declarations of injector files that need a blank import / that sit in a second injector file with several injectors / provider sets declared there
    ctx.run(ctx.export('FamilyX(p, {"embed-in-injector-file", "two-files-ok", "sets-in-injector-file"})'), nontrivial=lambda c: True, runtime=True, switches=W_ONLY)


def C16(ctx):
    import det
    ctx.rules.append('WireConfig: the configuration lattice {module, module+vendor, GOPATH, GOPATH+vendor} x {2 checkout locations} x {wire gen . in the package dir, ./app from the root, ./..., import path} x {alone, with three other packages} x repetitions, '
                     'enumerated by TLC and set up for real, for three programs (many imports incl. two packages of the same name, a vendored third-party package, anonymous import, 7 values, 6 injectors in two files, copied declarations; small; many values); '
                     'non-trivial = distinct (program, configuration) ignoring repetition; judge (WireConfigJudge): exit 0, all digests of a program equal, no absolute path / host name / time stamp / vendor path in the bytes')
    det.run(ctx, 2 if ctx.quick else 6, sample=90 if ctx.quick else None)


def C19(ctx):
    import cli
    ctx.rules.append('every program of families G (n<=3), K, Q, B, U run through gen AND check (same verdict, same diagnostic classes per package); '
                     'wire show on the programs with named sets of families G, K, U, M compared with WireShow (included sets, outputs grouped by their external inputs, injector list); '
                     'command histories of WireCli with CkCheck; non-trivial = rejected programs (check must fail too) and sets with at least two output groups')
    nt = lambda c: verdict(c) == 'no' or any(len(s['groups']) >= 2 for s in (c.get('show') or {}).get('sets', []))
    fams = [(G(3), 300), ('FamilyK(p, KTypes)', 150), ('FamilyQ(p, 3)', 250), ('FamilyB(p)', 150), ('FamilyU(p)', 100), ('FamilyGSplit(p, 3)', 200), ('FamilyX(p, XVariants)', 100)]
    for expr, k in fams:
        cases = ctx.export(expr, extends='WireShow', caseop='CaseShow', pre_sample=(k if ctx.quick else None))
        ctx.run(cases, nontrivial=nt, runtime=False, check=True, show=True)
    m = ctx.export('FamilyM(p, {1, 2, 3})', extends='WireShow', caseop='CaseShow', pre_sample=80 if ctx.quick else 2500)
    ctx.run(m, nontrivial=nt, runtime=False, check=True, show=True)
    cli.run(ctx, (False, False, False, True), 15 if ctx.quick else 150, 10 if ctx.quick else 20, focus_check=300 if ctx.quick else 2500)


PROPS = {
    'C01': dict(fn=C01, level='exploration'),
    'C02': dict(fn=C02, level='model_checking'),
    'C03': dict(fn=C03, level='model_checking'),
    'C04': dict(fn=C04, level='model_checking'),
    'C05': dict(fn=C05, level='model_checking'),
    'C06': dict(fn=C06, level='model_checking'),
    'C07': dict(fn=C07, level='model_checking'),
    'C08': dict(fn=C08, level='model_checking'),
    'C09': dict(fn=C09, level='model_checking'),
    'C10': dict(fn=C10, level='model_checking'),
    'C11': dict(fn=C11, level='model_checking'),
    'C12': dict(fn=C12, level='model_checking'),
    'C13': dict(fn=C13, level='exploration'),
    'C14': dict(fn=C14, level='exploration'),
    'C15': dict(fn=C15, level='exploration'),
    'C16': dict(fn=C16, level='exploration'),
    'C17': dict(fn=C17, level='model_checking'),
    'C18': dict(fn=C18, level='model_checking'),
    'C19': dict(fn=C19, level='model_checking'),
    'C20': dict(fn=C20, level='exploration'),
}


def replay(path):
    """Re-render the stored case, re-run the real tool and the judge, print expectation vs observation."""
    import verif
    meta = json.load(open(os.path.join(path, 'case.json')))
    pid, case, kw, kind = meta['property'], meta['case'], meta.get('run_args', {}), meta.get('kind', '')
    ctx = verif.Ctx(pid, 'quick', 1, PROPS.get(pid, {}).get('level', 'exploration'))
    ctx.known = []          # a replay reports what it sees, known or not
    try:
        ctx.build()
        print('case', case['key'], '(' + kind + ')')
        if kind.startswith('cli:'):
            import cli
            pk = tuple(case.get('pkgs', ('p', 'q')))
            c = cli.Cli(ctx.sc, ctx.wire, pk)
            c.references()
            evs = c.run_walk(1, case['history'], case['prefixes'])
            rej, _ = cli.validate(ctx.sc, evs, tuple(case['modes']), case['prefixes'], pk)
            for e in evs:
                print('  step', e['step'], e['cmd'], json.dumps(e['args']), 'exit', e['exit'], 'expected', e.get('expected_exit'), json.dumps(e['disk']), e['othermod'])
            if rej:
                print('REJECTED by WireCliTrace at step', rej[0][2])
                print('VIOLATION property=%s replay=%s' % (pid, path))
                return 1
            print('history accepted by WireCliTrace (does not reproduce on this tree)')
            return 0
        if kind == 'config':
            import det
            root = ctx.sc.path('det')
            o = det.run_config(ctx.wire, os.path.join(root, 'a'), case['program'], case['config'])
            ref = det.run_config(ctx.wire, os.path.join(root, 'b'), case['program'],
                                 {'layout': 'module', 'loc': 'short', 'invoke': 'subdir', 'company': 'alone', 'rep': 1})
            print('  this configuration:', json.dumps({k: o[k] for k in ('exit', 'digest', 'leak', 'bytes')}))
            print('  reference (module, short, ./app, alone):', json.dumps({k: ref[k] for k in ('exit', 'digest', 'leak', 'bytes')}))
            if o['exit'] != 0 or o['leak'] or o['digest'] != ref['digest']:
                print('VIOLATION property=%s replay=%s' % (pid, path))
                return 1
            print('same bytes, nothing leaked (does not reproduce on this tree)')
            return 0
        if case.get('fam') == 'D':
            import copydecl
            copydecl.run(ctx, [case])
        else:
            kw = {k: (tuple(v) if isinstance(v, list) else v) for k, v in kw.items()}
            if case.get('fam') == 'E':
                kw.update(runtime=False, notes=True)
            out = pipeline.run_cases(ctx.sc, ctx.wire, [case], name='replay', **kw)
            print('expectation (specification):', json.dumps(case.get('expect'))[:2000])
            for b_ in out.bad:
                print('REJECTED by the judge:', b_['kind'], json.dumps(b_['detail'])[:3000])
                ctx.res.violations.append((case['key'], path))
        if ctx.res.violations:
            print('VIOLATION property=%s replay=%s' % (pid, path))
            return 1
        print('observation accepted by the judge (does not reproduce on this tree)')
        return 0
    finally:
        ctx.sc.cleanup()


# ------------------------------------------------------------------ manifest texts
_TB = ('trusted: TLC 1.8 and its Json/CommunityModules, the Go 1.23 toolchain, the renderer (abstract program -> Go source; a template that fails to '
       'type-check is exit 2, never a verdict), the stderr tokeniser (diagnostic -> class keyword + named types), rt (reflection-based value descriptions). '
       'Bounded: see coverage.rule in the evidence file.')
_TECH_STATIC = 'TLA+ WireSem (declarative semantics) evaluated by TLC on TLC-enumerated program families; rendered to Go; real wire run; observations judged by TLC (WireJudge)'
_TECH_RT = ('TLA+ WireInject model-checked exhaustively by TLC (WireInjectMC) + generated injectors executed with instrumented providers, '
            'run-time traces validated by TLC against WireInject (WireInjectTrace)')
TEXT = {
    'C01': dict(level='exploration: TLC enumerates the forms x type-kinds product from the specification families; the deciding oracle for "nothing undefined, inaccessible or ill-typed" is the Go compiler on the generated package plus a typed function-variable assignment per injector; TLC (WireJudge) only checks gen-success => built.',
                technique='TLC-enumerated program families (WireFamilies) rendered to Go, real wire gen, go build of the result, judged by TLC (WireJudge: wrote => built)'),
    'C02': dict(level='model_checking: WireInject (wiring as guards: fed-by-source, at-most-once, only-if-needed, result identity) is model-checked exhaustively over the accepted programs of the families with every dependency-respecting call order; every generated injector of those programs is executed and its event trace must be a behaviour of WireInject (CheckW).',
                technique=_TECH_RT),
    'C03': dict(level='model_checking + fault enumeration: WireInjectMC explores every failure point of every flavour assignment on every DAG shape (n<=3 exhaustively) incl. repeated calls, checking NoCallAfterFailure, NoLeak, reverse unwinding, termination; the real injectors are executed under every single-failure schedule and alternations, traces validated with CheckE+CheckC.',
                technique=_TECH_RT + '; fault schedules exported by TLC'),
    'C04': dict(level='model_checking: WireInjectMC checks ReleaseIsReversePrefix, NoCleanupWhileRunning, AllReleasedWhenDone and the derived DependentBeforeDependency over all programs of family R n<=3; the real injectors run on success schedules, the aggregated cleanup is invoked, traces validated with CheckC.',
                technique=_TECH_RT),
    'C05': dict(level='model_checking: the finite space kind-pair x placement x type-form (family K, 1084 programs) is enumerated completely by TLC, WireSem marks each ambiguous, and the real gen and check must reject each with a multiple-bindings diagnostic naming the colliding type.',
                technique=_TECH_STATIC),
    'C06': dict(level='model_checking: WireSem!Missing evaluated by TLC on every digraph x node-kind assignment (n<=3 complete, n=4 sampled) plus targeted shapes; real gen must reject and name a type of Missing, and accept the complete programs.',
                technique=_TECH_STATIC),
    'C07': dict(level='model_checking: WireSem!CyclicTypes evaluated by TLC on every digraph with self-loops on n<=3 (complete) and n=4 (sampled quick / complete thorough), in one set, split over two sets, used or unused; scaling lattices/chains bound the analysis time by a timeout 50x the normal run.',
                technique=_TECH_STATIC + '; hangs and crashes isolated per package under a time and memory limit'),
    'C08': dict(level='model_checking: WireSem!UnusedItems / PartialFieldItems evaluated by TLC on family U and on all digraphs passed directly; gen must reject with an unused diagnostic exactly when an item is certainly unused; accepted programs are also executed (CheckW).',
                technique=_TECH_STATIC),
    'C09': dict(level='model_checking: the rule table WireSem!ResOK is total over the finite shape space; all shapes of length 0..3 (quick) / 0..4 (thorough) are enumerated by TLC in every placement and replayed.',
                technique=_TECH_STATIC),
    'C10': dict(level='model_checking: TLC evaluates WireSem on every regrouping/reordering variant of three bases and the harness checks that WireSem accepts each and assigns one wiring per base (a theorem of the semantics checked on the instances); every variant is generated by the real tool, executed, and validated with CheckW against that wiring.',
                technique=_TECH_RT + ' over the regrouping family M'),
    'C11': dict(level='model_checking: family B enumerated completely by TLC; accept/reject by WireSem (method-set rule, self binding, co-location); accepted programs model-checked (WireInjectMC) and executed, all consumers of I and of the bound type must observe one value (seen/Canon in WireInject).',
                technique=_TECH_RT + ' + static judge for rejections'),
    'C12': dict(level='model_checking: family S enumerated completely; WireSem decides name validity exactly; WireInject!ShapeOK checks at run time that selected fields carry the value of the source of their type, all others are zero, and that *F aliases the field inside the provided struct (pointer ordinals).',
                technique=_TECH_RT + ' + static judge for rejections'),
    'C13': dict(level='exploration: WireValueExpr is a typed grammar with the attributes the property names (calls, unexported, interface-typed, allocating); TLC enumerates depth<=2 (quick) / <=3 (thorough); MustReject is judged by TLC on the real verdicts; fidelity is judged by TLC on recorded value descriptions (home evaluation vs two injector calls).',
                technique='TLA+ expression grammar enumerated by TLC, rendered, real wire, generated injectors executed, observations judged by TLC (WireJudge!GenOK, ValueOK)'),
    'C14': dict(level='exploration: family N (all collision pairs of an adversarial pool over 12 nameable slots) is enumerated by TLC; the implementation is judged by go build and by trace validation of the renamed program against the unchanged wiring under every fault schedule (renaming invariance).',
                technique='TLC-enumerated naming family (WireNames) + WireInjectTrace validation of the executed injectors (all switches)'),
    'C15': dict(level='exploration: one implementation test per production x import context of WireCopyDecl; TLC judges the recorded observation (declared names once and in order, both builds, identical probe values).',
                technique='TLC-enumerated production x context table (WireCopyDecl), rendered, real wire gen, package built with and without the wireinject tag, probe values compared by TLC (WireJudge!CopyOK)'),
    'C16': dict(level='exploration: TLC enumerates the configuration lattice of WireConfig; every configuration is set up for real; TLC (WireConfigJudge) accepts iff all digests of a program are equal and nothing run-specific leaks.',
                technique='TLC-enumerated configuration lattice (WireConfig) replayed against the real binary in module / vendor / GOPATH layouts; digests judged by TLC'),
    'C17': dict(level='model_checking: WireCli is model-checked exhaustively (every (sources, disk) state x every command; 10 action properties); command histories generated by TLC (-simulate from Init, from arbitrary constructed states, and all one-step diff/gen transitions stratified) are replayed against the real binary with whole-tree snapshots and validated step by step by TLC (WireCliTrace, CkStatus+CkFootprint).',
                technique='TLA+ WireCli model-checked by TLC; TLC-generated command histories replayed into the real binary; recorded steps validated by TLC (WireCliTrace)'),
    'C18': dict(level='model_checking: as C17 with CkRegen: after every successful gen the file must equal (bytes) a from-scratch generation of the current sources in a pristine copy, whatever the history or the prior content; gen;gen and gen;diff are checked on consecutive steps.',
                technique='TLA+ WireCli model-checked by TLC; TLC-generated histories replayed; file contents projected by byte comparison with from-scratch generations; validated by TLC (WireCliTrace)'),
    'C19': dict(level='model_checking: gen and check are run on every program of six families and judged by TLC against one WireSem verdict (incl. ill-formed set variables no injector uses); wire show is parsed and compared by TLC with WireShow (includes, output groups by external inputs, injectors); CLI histories with CkCheck.',
                technique=_TECH_STATIC + ' + WireShow + WireCliTrace(CkCheck)'),
    'C20': dict(level='exploration: WireFront enumerates marker x argument position x expression form (all type-correct because the markers take interface{}) plus whole-file shapes; each is run under gen and check, and the programs of the semantic families (X, G, M, B, G-split) under gen, check and show; TLC judges the outcome domain (exit 0, or diagnostics with a position; no panic, hang or silent failure).',
                technique='TLC-enumerated front-end form table (WireFront), rendered, real wire gen/check per package with crash isolation, outcomes judged by TLC (WireJudge)'),
}
for _k in TEXT:
    TEXT[_k].setdefault('note', _TB)
