"""Per-property decision procedures (DESIGN.md section 6)."""
import os, json, sys
import core, pipeline
from core import log, Broken

W_ONLY = (True, False, False)
E_C = (False, True, True)
ALL = (True, True, True)


def verdict(c):
    vs = [e['verdict'] for e in c['expect']]
    return 'no' if 'no' in vs else ('free' if 'free' in vs else 'yes')


def reasons(c):
    r = set()
    for e in c['expect']:
        r |= set(e['reasons'])
    return r


def G(n, kinds='all', wraps=('set', 'dir')):
    return 'FamilyG(p, %d, "%s", {%s})' % (n, kinds, ', '.join('"%s"' % w for w in wraps))


# ------------------------------------------------------------------ C06
def C06(ctx):
    ctx.rules.append('family G: every digraph on n types x every node kind {provider, injector parameter, absent}; '
                     'non-trivial = a case where a needed type has no source (WireSem: Missing # {}) ; '
                     'judge: rejected, no output, a no-provider diagnostic naming a type of Missing')
    cases = ctx.export(G(3))
    miss = lambda c: 'missing' in reasons(c)
    if ctx.quick:
        cases = ctx.sample([c for c in cases if miss(c) or verdict(c) == 'yes'], 700, must=lambda c: False)
    ctx.res.cov['exhaustive'] = not ctx.quick
    ctx.run(cases, nontrivial=miss, runtime=False)
    if not ctx.quick:
        big = ctx.export(G(4), pre_sample=12000)
        big = [c for c in big if miss(c)]
        ctx.run(big, nontrivial=miss, runtime=False)


# ------------------------------------------------------------------ C07
def C07(ctx):
    ctx.rules.append('family G with all nodes providers: every digraph incl. self-loops on n<=3 (quick) / n<=4 (thorough), '
                     'as wire.Build(Set) (cyclic part may be unused) and as direct items; non-trivial = HasCycle; '
                     'judge: cyclic => rejected with a cycle diagnostic, acyclic+complete => accepted, always terminates')
    cyc = lambda c: 'cycle' in reasons(c)
    cases = ctx.export(G(3, 'f'))
    ctx.res.cov['exhaustive'] = True
    ctx.run(cases, nontrivial=cyc, runtime=False)
    big = ctx.export(G(4, 'f', ('set',)), pre_sample=400 if ctx.quick else None)
    ctx.run(big, nontrivial=cyc, runtime=False)


# ------------------------------------------------------------------ C02
def C02(ctx):
    ctx.rules.append('accepted programs of family G (all DAG shapes with fan-in/out, shared dependencies, parameters); '
                     'each generated injector is executed twice with fresh argument tokens; non-trivial = at least two providers run; '
                     'judge: WireInjectTrace with CheckW (argument identities = values of the designated sources, at most once, only if needed, result identity)')
    cases = [c for c in ctx.export(G(3)) if verdict(c) == 'yes']
    nt = lambda c: len(c['expect'][0]['funcs']) >= 2
    if ctx.quick:
        cases = ctx.sample(cases, 400, must=nt)
    ctx.run(cases, nontrivial=nt, runtime=True, switches=W_ONLY)
    if not ctx.quick:
        big = [c for c in ctx.export(G(4), pre_sample=30000) if verdict(c) == 'yes']
        ctx.run(big, nontrivial=nt, runtime=True, switches=W_ONLY)


PROPS = {
    'C02': dict(fn=C02, level='model_checking'),
    'C06': dict(fn=C06, level='model_checking'),
    'C07': dict(fn=C07, level='model_checking'),
}


def replay(path):
    """Re-render the stored case, re-run the real tool and the judge, print expectation vs observation."""
    import verif
    meta = json.load(open(os.path.join(path, 'case.json')))
    pid, case, kw = meta['property'], meta['case'], meta.get('run_args', {})
    ctx = verif.Ctx(pid, 'quick', 1, PROPS.get(pid, {}).get('level', 'exploration'))
    try:
        ctx.build()
        out = pipeline.run_cases(ctx.sc, ctx.wire, [case], name='replay', **{k: (tuple(v) if isinstance(v, list) else v) for k, v in kw.items()})
        print('case', case['key'])
        print('expectation (WireSem):', json.dumps(case['expect'])[:2000])
        if out.bad:
            for b in out.bad:
                print('REJECTED by the judge:', b['kind'], json.dumps(b['detail'])[:3000])
            print('VIOLATION property=%s replay=%s' % (pid, path))
            return 1
        print('observation accepted by the judge (does not reproduce on this tree)')
        return 0
    finally:
        ctx.sc.cleanup()
