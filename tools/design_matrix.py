#!/usr/bin/env python3
"""Rewrites the table of DESIGN.md section 0.8 (between the MATRIX markers) from seeded/*/meta.json."""
import json, os, glob, re
V = os.path.dirname(os.path.dirname(os.path.abspath(__file__)))
rows = []
tot = det = 0
for d in sorted(glob.glob(os.path.join(V, 'seeded', '*', 'meta.json'))):
    m = json.load(open(d))
    mid = m['id']
    s = re.sub(r'\s+', ' ', (m.get('summary') or '')).replace('|', '/')
    s = s[:150] + ('…' if len(s) > 150 else '')
    by = m.get('detected_by') or []
    ran = m.get('checks_run_against_it') or []
    note = m.get('detection_note', '')
    tot += 1
    det += 1 if by else 0
    rows.append('| %s | %s | %s | %s |' % (mid, m.get('breaks_property', ''), s,
                                          (', '.join(by) if by else ('**missed** (ran ' + ', '.join(ran) + ')' if ran else 'not run')) + ((' - ' + note) if note else '')))
table = ['%d mutants, %d detected by at least one quick check.' % (tot, det), '',
         '| mutant | property | change | quick checks that report a VIOLATION |', '|---|---|---|---|'] + rows
p = os.path.join(V, 'DESIGN.md')
s = open(p).read()
a, b = s.index('<!-- MATRIX-BEGIN -->'), s.index('<!-- MATRIX-END -->')
s = s[:a] + '<!-- MATRIX-BEGIN -->\n' + '\n'.join(table) + '\n' + s[b:]
open(p, 'w').write(s)
print(table[0])
