#!/bin/bash
# usage: confirm_mutant.sh <worktree> <mutant dir with patch.diff, demo/run.sh> <out json>
# Confirms: patch applies, builds, test-suite result identical to baseline, demo fails with patch and passes without.
export GOFLAGS=-mod=mod GOPROXY=off GOSUMDB=off GOTOOLCHAIN=local
WT=$1; M=$2; OUT=$3
cd "$WT" || exit 2
git checkout -q -- . 2>/dev/null
summ() { go test -vet=off -count=1 -json ./... 2>/dev/null | python3 -c "
import sys,json
r={}
for l in sys.stdin:
    try: e=json.loads(l)
    except: continue
    if e.get('Action') in ('pass','fail') and e.get('Test'): r[e['Package']+'::'+e['Test']]=e['Action']
print(json.dumps(sorted(r.items())))"; }
if [ ! -f /tmp/wt/baseline_tests.json ]; then summ > /tmp/wt/baseline_tests.json; fi
bash "$M/demo/run.sh" "$WT" >/tmp/wt/demo_clean.$$ 2>&1; clean=$?
git apply "$M/patch.diff" || { echo '{"ok":false,"why":"patch does not apply"}' > "$OUT"; exit 1; }
go build ./... >/dev/null 2>&1; build=$?
summ > /tmp/wt/mut_tests.$$
if cmp -s /tmp/wt/mut_tests.$$ /tmp/wt/baseline_tests.json; then tests=same; else tests=differ; fi
bash "$M/demo/run.sh" "$WT" >/tmp/wt/demo_mut.$$ 2>&1; mut=$?
git checkout -q -- .
python3 - <<PY > "$OUT"
import json
print(json.dumps({"ok": $build==0 and "$tests"=="same" and $clean==0 and $mut!=0, "build_rc": $build, "tests_vs_baseline": "$tests", "demo_rc_clean_tree": $clean, "demo_rc_with_patch": $mut}))
PY
rm -f /tmp/wt/mut_tests.$$ /tmp/wt/demo_clean.$$ /tmp/wt/demo_mut.$$
cat "$OUT"
