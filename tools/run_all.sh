#!/bin/bash
# usage: tools/run_all.sh [quick|thorough] [seed]   runs every registered check, prints one line each
cd "$(dirname "$0")/.."
TIER=${1:-quick}; export VERIF_SEED=${2:-1}
for id in $(python3 -c "import json;print(' '.join(c['property_id'] for c in json.load(open('MANIFEST.json'))['checks']))"); do
  s=$(date +%s); out=$(./check $id $TIER 2>&1); rc=$?
  echo "$id rc=$rc $(( $(date +%s) - s ))s violations=$(echo "$out" | grep -c '^VIOLATION') known=$(echo "$out" | grep -c '^KNOWN-FINDING') $(echo "$out" | grep BROKEN | cut -c1-200)"
done
