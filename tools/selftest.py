#!/usr/bin/env python3
"""Demonstrates that the trace specifications are bound to the recorded data (DESIGN.md section 10): real traces /
observations / histories recorded from the unchanged tree are accepted, and each of a list of single corruptions of
them is rejected.  Not a property check (nothing here decides a property); exit 0 = every corruption rejected and
every original accepted, 1 otherwise.  Writes selftest/RESULT.json."""
import copy
import json
import os
import sys

V = os.path.dirname(os.path.dirname(os.path.abspath(__file__)))
sys.path.insert(0, os.path.join(V, 'harness'))
import core          # noqa: E402
import pipeline      # noqa: E402
import cli           # noqa: E402
import verif         # noqa: E402

results = []


def record(group, name, expect_reject, rejected):
    ok = bool(rejected) == expect_reject
    results.append({'group': group, 'corruption': name, 'expected': 'rejected' if expect_reject else 'accepted',
                    'observed': 'rejected' if rejected else 'accepted', 'ok': ok})
    print('%-10s %-58s %s' % (group, name, 'ok' if ok else 'WRONG (%s)' % ('rejected' if rejected else 'accepted')))


def inject_traces(ctx):
    """one program of family R: P1 <- P2 <- P3, every provider with cleanup and error, injector with both"""
    cases = [c for c in ctx.export('FamilyR(p, 3)') if all(l['cl'] and l['er'] for l in c['prog']['leaves'])
             and all(i['cl'] and i['er'] for i in c['prog']['injs'])]
    cases = [c for c in cases if sum(len(l['ins']) for l in c['prog']['leaves']) == 2][:1]
    cases = core.export_cases(ctx.sc, cases) if hasattr(core, 'export_cases') and False else cases
    out = pipeline.run_cases(ctx.sc, ctx.wire, cases, name='st', runtime=True, switches=(True, True, True))
    assert not out.bad, out.bad
    cases_path = ctx.sc.path('st.cases.ndjson')
    trace = ctx.sc.path('stdrv.trace.ndjson')
    lines = [json.loads(x) for x in open(trace)]

    def judge(evs, name):
        p = ctx.sc.path('st-%s.trace.ndjson' % name)
        with open(p, 'w') as f:
            for e in evs:
                f.write(json.dumps(e, separators=(',', ':')) + '\n')
        rej, nt, ne, st = pipeline.judge_traces(ctx.sc, cases_path, p, (True, True, True))
        return rej

    record('inject', 'recorded traces, unchanged', False, judge(lines, 'orig'))
    # indices of interesting events
    def find(pred, start=0):
        for i in range(start, len(lines)):
            if pred(lines[i]):
                return i
        return -1
    # (a) swap two cleanup events of one unwinding
    i = find(lambda e: e['e'] == 'cleanup')
    while i >= 0 and not (i + 1 < len(lines) and lines[i + 1]['e'] == 'cleanup'):
        i = find(lambda e: e['e'] == 'cleanup', i + 1)
    if i >= 0:
        ev = copy.deepcopy(lines); ev[i], ev[i + 1] = ev[i + 1], ev[i]
        record('inject', 'two cleanup events of one unwinding swapped', True, judge(ev, 'swap'))
    # (b) one argument token of a provider call changed
    i = find(lambda e: e['e'] == 'call' and e['args'])
    ev = copy.deepcopy(lines)
    def retok(d):
        if isinstance(d, dict):
            return {k: (v + '~' if k == 't' and isinstance(v, str) else retok(v)) for k, v in d.items()}
        if isinstance(d, list):
            return [retok(x) for x in d]
        return d
    ev[i]['args'][0] = retok(ev[i]['args'][0])
    record('inject', 'argument of a provider call differs from its source', True, judge(ev, 'arg'))
    # (c) the error of a failing call replaced by another one
    i = find(lambda e: e['e'] == 'return' and e['err'])
    ev = copy.deepcopy(lines); ev[i]['err'] = ev[i]['err'] + '-other'
    record('inject', 'returned error is not the failing provider\'s error', True, judge(ev, 'err'))
    # (d) a provider call after the failure
    j = find(lambda e: e['e'] == 'call')
    ev = copy.deepcopy(lines); ev.insert(i, copy.deepcopy(lines[j]))
    record('inject', 'a provider is called after another one failed', True, judge(ev, 'after'))
    # (e) one cleanup event dropped
    k = find(lambda e: e['e'] == 'cleanup')
    ev = copy.deepcopy(lines); del ev[k]
    record('inject', 'one cleanup event missing', True, judge(ev, 'drop'))
    # (f) a non-zero value next to the error
    ev = copy.deepcopy(lines); ev[i]['zero'] = False
    record('inject', 'non-zero result next to an error', True, judge(ev, 'zero'))
    # (g) cleanup not nil next to the error
    ev = copy.deepcopy(lines); ev[i]['clNil'] = False
    record('inject', 'non-nil cleanup next to an error', True, judge(ev, 'clnil'))
    # (h) result of a successful call is not the last provider's value
    s = find(lambda e: e['e'] == 'return' and not e['err'])
    ev = copy.deepcopy(lines); ev[s]['v'] = retok(ev[s]['v'])
    record('inject', 'result is not the value of its source', True, judge(ev, 'res'))

    # static observations
    obs = [json.loads(x) for x in open(ctx.sc.path('st-judge.obs.ndjson'))] if os.path.exists(ctx.sc.path('st-judge.obs.ndjson')) else []
    if obs:
        o = dict(obs[0])
        bad, n = pipeline.judge_static(ctx.sc, cases_path, [o], name='st-j0')
        record('judge', 'recorded gen observation, unchanged', False, bad)
        for name, ch in [('package reported as generated does not build', {'built': 'fail'}),
                         ('gen failed on an accepted program', {'failed': True, 'rc': 1, 'wrote': False, 'built': 'na', 'diags': ['wire.go:1:1: inject Inject: x']}),
                         ('panic', {'panic': True, 'failed': True, 'rc': 2}),
                         ('frame of the generated file wrong', {'frame_ok': False})]:
            o2 = dict(o); o2.update(ch)
            bad, n = pipeline.judge_static(ctx.sc, cases_path, [o2], name='st-j1')
            record('judge', name, True, bad)


def cli_histories(ctx):
    c = cli.Cli(ctx.sc, ctx.wire)
    c.references()
    src0 = {'p': 'okA', 'q': 'bad'}
    d0 = {'p': {'std': 'stale'}, 'q': {'std': 'stale'}}
    def rec(cmd, args, ex):
        return {'cmd': cmd, 'args': args, 'exit': ex, 'src0': src0, 'disk0': d0}
    walk = [rec('diff', {'pkgs': ['p'], 'header': 'none', 'tags': ''}, 1),
            rec('gen', {'pkgs': ['p', 'q'], 'header': 'none', 'prefix': 'std', 'tags': '', 'form': 'gen'}, 1),
            rec('diff', {'pkgs': ['p'], 'header': 'none', 'tags': ''}, 0),
            rec('check', {'pkgs': ['p', 'q'], 'tags': ''}, 1),
            rec('gen', {'pkgs': ['p'], 'header': 'none', 'prefix': 'std', 'tags': '', 'form': 'gen'}, 0)]
    evs = c.run_walk(1, walk, ('std',))
    modes = (True, True, True, True)
    def judge(e):
        rej, _ = cli.validate(ctx.sc, e, modes, ('std',))
        return rej
    record('cli', 'recorded history, unchanged', False, judge(evs))
    for name, f in [('exit status of gen flipped', lambda e: e[2].__setitem__('exit', 0)),
                    ('exit status of diff flipped', lambda e: e[3].__setitem__('exit', 1)),
                    ('check succeeds although gen fails', lambda e: e[4].__setitem__('exit', 0)),
                    ('another file of the tree changed during gen', lambda e: e[2].__setitem__('othermod', ['p/lib.go'])),
                    ('the failing package\'s stale file was replaced', lambda e: e[2]['disk']['q'].__setitem__('std', 'absent')),
                    ('gen left something else than a fresh generation', lambda e: e[2]['disk']['p'].__setitem__('std', 'stale')),
                    ('diff modified the tree', lambda e: e[3]['disk']['p'].__setitem__('std', 'absent')),
                    ('the second gen changed the file again', lambda e: e[5]['disk']['p'].__setitem__('std', 'gen:okA:ok:'))]:
        e2 = copy.deepcopy(evs)
        f(e2)
        record('cli', name, True, judge(e2))


def main():
    ctx = verif.Ctx('C03', 'quick', 1, 'selftest')
    rc = 1
    try:
        ctx.build()
        inject_traces(ctx)
        cli_histories(ctx)
        ok = all(r['ok'] for r in results)
        os.makedirs(os.path.join(V, 'selftest'), exist_ok=True)
        with open(os.path.join(V, 'selftest', 'RESULT.json'), 'w') as f:
            json.dump({'all_ok': ok, 'results': results}, f, indent=1)
        print('selftest:', 'all corruptions rejected, originals accepted' if ok else 'FAILED')
        rc = 0 if ok else 1
    finally:
        ctx.sc.cleanup()
    return rc


if __name__ == '__main__':
    sys.exit(main())
