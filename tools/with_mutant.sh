#!/bin/bash
# usage: tools/with_mutant.sh <patch.diff> <check id>...   applies the patch to /repo, runs the quick checks, reverts.
P=$1; shift
cd /repo || exit 2
if ! git apply "$P" 2>/dev/null; then
  if ! git apply -3 "$P" 2>/dev/null; then
    patch -p1 --fuzz=3 -s < "$P" || { echo "PATCH-FAILED $P"; git checkout -q -- .; git clean -fdq; exit 3; }
  fi
fi
cd /verif
for id in "$@"; do
  out=$(./check "$id" ${TIER:-quick} 2>&1); rc=$?
  echo "$id rc=$rc $(echo "$out" | grep -c '^VIOLATION') violations; $(echo "$out" | grep 'BROKEN' | head -1 | cut -c1-300)"
  echo "$out" | grep '^VIOLATION' | head -3
done
cd /repo && git reset -q --hard HEAD && git clean -fdq
