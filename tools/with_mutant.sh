#!/bin/bash
# usage: tools/with_mutant.sh <patch.diff> <check id>...
# Applies the patch to a scratch worktree of /repo's HEAD (never /repo itself), runs the checks against it
# (VERIF_REPO), with evidence and replays redirected to a scratch dir, then removes everything.
P=$(readlink -f "$1"); shift
WT=$(mktemp -d /tmp/mutrepo.XXXXXX); OUT=$(mktemp -d /tmp/mutout.XXXXXX)
git -C /repo worktree add -q --detach "$WT" HEAD || exit 2
cd "$WT"
if ! git apply "$P" 2>/dev/null; then
  if ! git apply -3 "$P" 2>/dev/null; then
    patch -p1 --fuzz=3 -s < "$P" || { echo "PATCH-FAILED $P"; cd /; git -C /repo worktree remove --force "$WT"; rm -rf "$OUT"; exit 3; }
  fi
fi
cd "${VERIF_HOME:-/verif}"
for id in "$@"; do
  out=$(VERIF_REPO="$WT" VERIF_OUT="$OUT" ./check "$id" ${TIER:-quick} 2>&1); rc=$?
  echo "$id rc=$rc violations=$(echo "$out" | grep -c '^VIOLATION') $(echo "$out" | grep 'BROKEN' | head -1 | cut -c1-300)"
  for r in $(echo "$out" | grep '^VIOLATION' | head -2 | sed 's/.*replay=//'); do python3 -c "
import json,sys
c=json.load(open('$r/case.json')); print('   ', c['kind'], c['case']['key'])"; done
done
cd /; git -C /repo worktree remove --force "$WT"; rm -rf "$OUT"
