#!/usr/bin/env python3
"""Collects the results of tools/with_mutant.sh runs (log files given as arguments, oldest first) into
seeded/RESULTS.json and into each seeded/<id>/meta.json ('detected_by').  Later runs override earlier ones."""
import sys, re, json, os
V = os.path.dirname(os.path.dirname(os.path.abspath(__file__)))
res = {}
for path in sys.argv[1:]:
    cur = None
    for line in open(path, errors='replace'):
        m = re.match(r'=== (\S+)', line)
        if m:
            cur = m.group(1)
            continue
        m = re.match(r'(C\d+) rc=(\d+) violations=(\d+)', line)
        if m and cur:
            res.setdefault(cur, {})[m.group(1)] = {'rc': int(m.group(2)), 'violations': int(m.group(3))}
        if 'PATCH-FAILED' in line and cur:
            res.setdefault(cur, {})['_patch'] = 'failed to apply at the time of that run'
out = {}
for mid in sorted(res):
    det = sorted(c for c, r in res[mid].items() if c != '_patch' and r['violations'] > 0)
    ran = sorted(c for c in res[mid] if c != '_patch')
    out[mid] = {'checks_run': ran, 'detected_by': det, 'detail': res[mid]}
    mp = os.path.join(V, 'seeded', mid, 'meta.json')
    if os.path.exists(mp):
        meta = json.load(open(mp))
        meta['detected_by'] = det
        meta['checks_run_against_it'] = ran
        json.dump(meta, open(mp, 'w'), indent=1)
json.dump(out, open(os.path.join(V, 'seeded', 'RESULTS.json'), 'w'), indent=1, sort_keys=True)
n = len(out)
d = sum(1 for v in out.values() if v['detected_by'])
print('%d mutants with runs, %d detected by at least one check' % (n, d))
for mid, v in out.items():
    print('%-10s %-28s %s' % (mid, ','.join(v['detected_by']) or 'MISSED', '' if v['detected_by'] else 'ran: ' + ','.join(v['checks_run'])))
