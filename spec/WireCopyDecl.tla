---------------------------- MODULE WireCopyDecl ----------------------------
(***************************************************************************)
(* Property C15: declarations copied from injector files keep their        *)
(* meaning.  The input space is (production, import context): one          *)
(* declaration per production of the declaration / statement / expression  *)
(* grammar (so that every ast node kind occurs), in each situation of the  *)
(* import names of the source file relative to those of the generated one. *)
(* What must hold of every case is stated by CopyOK over the observation.  *)
(***************************************************************************)
EXTENDS WireFamilies

Productions ==
  {"func-basic", "var-decls", "const-iota", "type-struct-tags", "type-interface-embedded", "method-decls", "func-closure-capture",
   "func-defer-recover", "func-labels-goto", "func-switch-fallthrough", "func-typeswitch", "func-select-chan-go", "func-range-forms",
   "func-composite-literals", "func-slice-index-exprs", "func-variadic-ellipsis", "func-literal-iife", "func-shadowing-scopes",
   "func-incdec-assignops", "func-pointer-star-addr", "func-type-assert-conversion", "type-func-chan-map-array", "func-named-results-bare-return",
   "func-if-else-init", "func-for-forms", "var-block-multi", "doc-comments", "func-generic", "type-generic", "type-generic-two-params",
   "func-uses-imported-types", "func-struct-anonymous", "func-multi-assign-swap", "func-const-expr-shifts", "func-string-rune-literals", "func-required-parens", "embed-and-init",
   "type-alias", "func-renamed-local-and-inner-fresh-name", "method-named-like-the-injector", "func-three-index-slice-of-imported"}
Contexts == {"plain", "alias-differs", "dot-import", "local-collides", "same-base-two-imports", "generated-alias-taken", "dot-import-same-package-name", "vendor-like-path-element"}

DProg(prod, ctx) ==
  [Prog("D/" \o prod \o "/" \o ctx, "D", <<>>, <<>>, <<>>, <<>>) EXCEPT !.fam = "D"] @@ [decl |-> [prod |-> prod, ctx |-> ctx]]
FamilyD(p) == \E prod \in Productions : \E ctx \in Contexts : p = DProg(prod, ctx)
CaseD(P) == [key |-> P.key, fam |-> "D", prog |-> P,
             expect |-> <<[inj |-> "Inject", verdict |-> "yes", reasons |-> {}, ambiguous |-> {}, cyclic |-> {}, missing |-> {},
                           unused |-> {}, funcs |-> {}, wiring |-> [t \in {} |-> 0], scheds |-> <<>>]>>,
             invalidsets |-> {}]
=============================================================================
