---------------------------- MODULE WireNamesAlloc ----------------------------
(***************************************************************************)
(* Name allocation of the generator (internal/wire/wire.go: disambiguate,  *)
(* typeVariableName, unexport, export, qualifyImport, nameInFileScope,     *)
(* nameInInjector) transcribed as operators over strings, and applied to   *)
(* the base program of family N (WireNames) in the order the generator     *)
(* allocates: value variables, the other package's import alias, the       *)
(* error variable, the injector parameter, then per planned call the local *)
(* and - for providers with a cleanup - the cleanup variable.              *)
(* TLC enumerates every naming of the family as an initial state and       *)
(* checks, at design level, what C14 needs of the allocation: every        *)
(* generated name is fresh where it is declared, none is a keyword, none   *)
(* captures a name the injector body refers to.  The predicted names are   *)
(* also exported and compared with the names in the real generated file    *)
(* (conformance of this model; information, not a verdict).                *)
(***************************************************************************)
EXTENDS WireNames, Json

Keywords == {"break", "case", "chan", "const", "continue", "default", "defer", "else", "fallthrough", "for", "func", "go", "goto", "if",
             "import", "interface", "map", "package", "range", "return", "select", "struct", "switch", "type", "var"}
Universe == {"bool", "byte", "complex64", "complex128", "error", "float32", "float64", "int", "int8", "int16", "int32", "int64", "rune", "string",
             "uint", "uint8", "uint16", "uint32", "uint64", "uintptr", "true", "false", "iota", "nil", "append", "cap", "close", "complex", "copy",
             "delete", "imag", "len", "make", "new", "panic", "print", "println", "real", "recover", "any", "comparable", "min", "max", "clear"}

Ch(s, i) == SubSeq(s, i, i)
From(s, i) == SubSeq(s, i, Len(s))
UpperS == <<"A", "B", "C", "D", "E", "F", "G", "H", "I", "J", "K", "L", "M", "N", "O", "P", "Q", "R", "S", "T", "U", "V", "W", "X", "Y", "Z">>
LowerS == <<"a", "b", "c", "d", "e", "f", "g", "h", "i", "j", "k", "l", "m", "n", "o", "p", "q", "r", "s", "t", "u", "v", "w", "x", "y", "z">>
IsUpper(c) == \E i \in 1..26 : UpperS[i] = c
IsLower(c) == \E i \in 1..26 : LowerS[i] = c
IsDigit(c) == c \in {"0", "1", "2", "3", "4", "5", "6", "7", "8", "9"}
ToLower(c) == IF IsUpper(c) THEN LowerS[CHOOSE i \in 1..26 : UpperS[i] = c] ELSE c
ToUpper(c) == IF IsLower(c) THEN UpperS[CHOOSE i \in 1..26 : LowerS[i] = c] ELSE c

\* unexport: Foo -> foo, UPPERWord -> upperWord, ID -> id
RECURSIVE LowerRun(_, _)
\* lower-case the run of capitals starting at position i, stopping before a capital that starts a word (followed by a lower-case letter)
LowerRun(s, i) ==
  IF i > Len(s) \/ ~IsUpper(Ch(s, i)) THEN From(s, i)
  ELSE IF i < Len(s) /\ IsLower(Ch(s, i + 1)) THEN From(s, i)
  ELSE ToLower(Ch(s, i)) \o LowerRun(s, i + 1)
Unexport(s) ==
  IF s = "" THEN ""
  ELSE IF ~IsUpper(Ch(s, 1)) THEN s
  ELSE IF Len(s) = 1 \/ ~IsUpper(Ch(s, 2)) THEN ToLower(Ch(s, 1)) \o From(s, 2)
  ELSE ToLower(Ch(s, 1)) \o LowerRun(s, 2)
Export(s) == IF s = "" THEN "" ELSE ToUpper(Ch(s, 1)) \o From(s, 2)

\* disambiguate(name, collides): name itself, else name2, name3, ... (name_2 when name ends in a digit)
Disamb(name, taken) ==
  IF name \notin Keywords /\ name \notin taken THEN name
  ELSE LET base == IF name # "" /\ IsDigit(Ch(name, Len(name))) THEN name \o "_" ELSE name
           ok(n) == (base \o ToString(n)) \notin Keywords /\ (base \o ToString(n)) \notin taken
       IN base \o ToString(CHOOSE n \in 2..60 : ok(n) /\ \A m \in 2..(n - 1) : ~ok(m))
\* typeVariableName for a named type: the type's name, else package name + Title(type name), else disambiguate the first
TypeVar(tname, pkgname, kind, taken) ==
  LET tr(n) == IF kind = "local" THEN Unexport(n) ELSE "_wire" \o Export(n) \o "Value"
      c1 == tr(tname)  c2 == tr(pkgname \o Export(tname))
  IN IF c1 \notin Keywords /\ c1 \notin taken THEN c1
     ELSE IF c2 \notin Keywords /\ c2 \notin taken THEN c2
     ELSE Disamb(c1, taken)

(* ---- the base program of family N under a naming nm ------------------------ *)
\* identifiers declared at package scope of the injector package (what LookupParent finds, with the universe)
PkgScope(nm, pkgname) ==
  {nm["T1"], nm["T2"], nm["T3"], nm["T4"], nm["P1"], nm["P2"], "MkT1", "MkT2", "MkT3", "MkT4", "Inject", "VerifDrive"}
  \cup (IF nm["var"] = "" THEN {} ELSE {nm["var"]}) \cup Universe
Alloc(nm, pkgname) ==
  LET scope0 == PkgScope(nm, pkgname)
      bname  == IF nm["pkg:b"] = "@same" THEN pkgname ELSE nm["pkg:b"]
      \* value variable of wire.Value(T4{...}) (allocated before the passes, against the file scope)
      valvar == TypeVar(nm["T4"], pkgname, "value", scope0)
      \* import alias of package b (first pass; an import never takes the name err)
      alias  == Disamb(bname, scope0 \cup {valvar, "err"})
      file   == scope0 \cup {valvar, alias}
      errv   == Disamb("err", file)
      p0     == IF nm["p0"] \in {"", "_"} THEN TypeVar(nm["T3"], pkgname, "local", file \cup {errv}) ELSE Disamb(nm["p0"], file \cup {errv})
      t0     == file \cup {errv, p0}
      \* planned calls: PB (value, cleanup), P2 (value, cleanup), the value T4, P1 (value, cleanup)
      l1 == TypeVar(nm["TB"], bname, "local", t0)                 c1 == Disamb("cleanup", t0 \cup {l1})
      l2 == TypeVar(nm["T2"], pkgname, "local", t0 \cup {l1, c1})  c2 == Disamb("cleanup", t0 \cup {l1, c1, l2})
      l3 == TypeVar(nm["T4"], pkgname, "local", t0 \cup {l1, c1, l2, c2})
      l4 == TypeVar(nm["T1"], pkgname, "local", t0 \cup {l1, c1, l2, c2, l3})
      c3 == Disamb("cleanup", t0 \cup {l1, c1, l2, c2, l3, l4})
  IN [valvar |-> valvar, alias |-> alias, errv |-> errv, p0 |-> p0, locals |-> <<l1, l2, l3, l4>>, cleanups |-> <<c1, c2, c3>>, file |-> file]

(* ---- what C14 needs of the allocation ------------------------------------------ *)
Generated(a) == <<a.errv, a.p0>> \o a.locals \o a.cleanups
\* names the generated injector body refers to from outer scopes
Referenced(nm, a) == {nm["P1"], nm["P2"], nm["T1"], nm["T3"], a.alias, a.valvar, "nil"}
Fresh(nm, a) ==
  /\ \A i, j \in DOMAIN Generated(a) : i # j => Generated(a)[i] # Generated(a)[j]      \* pairwise distinct inside the injector
  /\ \A i \in DOMAIN Generated(a) : Generated(a)[i] \notin a.file                        \* and new with respect to the file scope
  /\ a.alias \notin PkgScope(nm, "x") /\ a.valvar \notin PkgScope(nm, "x") /\ a.alias # a.valvar
NotKeyword(a) == \A i \in DOMAIN Generated(a) : Generated(a)[i] \notin Keywords /\ Generated(a)[i] # "" /\ Generated(a)[i] # "_"
NoCapture(nm, a) == \A i \in DOMAIN Generated(a) : Generated(a)[i] \notin Referenced(nm, a)

VARIABLE nmv
\* every naming of family N (the same enumeration as FamilyN, on the naming instead of the program)
AInit ==
  \/ nmv = Base
  \/ \E i \in DOMAIN NSlots : \E n1 \in NPool(NSlots[i]) :
       LET nm1 == [Base EXCEPT ![NSlots[i]] = n1] IN
       \/ NamingOK(nm1) /\ nmv = nm1
       \/ \E j \in DOMAIN NSlots : j > i /\ \E n2 \in NPool(NSlots[j]) :
            LET nm2 == [nm1 EXCEPT ![NSlots[j]] = n2] IN NamingOK(nm2) /\ nmv = nm2
ANext == UNCHANGED nmv
AllocOK == LET a == Alloc(nmv, "c00001") IN Fresh(nmv, a) /\ NotKeyword(a) /\ NoCapture(nmv, a)
\* predicted names, one line per naming (the key is the one FamilyN gives the program)
Emit == PrintT(<<"NAMES", NProg(nmv).key, ToJson([x \in {"valvar", "alias", "errv", "p0", "locals", "cleanups"} |-> Alloc(nmv, "@PKG")[x]])>>)
=============================================================================
