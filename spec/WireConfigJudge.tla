--------------------------- MODULE WireConfigJudge ---------------------------
(* Judge of C16 observations: one line per (program, configuration) run. *)
EXTENDS Naturals, Sequences, FiniteSets, TLC, Json, Functions
CONSTANTS ObsFile
Obs == ndJsonDeserialize(ObsFile)
\* runs are comparable when program AND options (tags) agree
Runs(p) == {i \in DOMAIN Obs : Obs[i].program = p}
ProgramsSeen == {Obs[i].program : i \in DOMAIN Obs}
\* the reference digest of a program: the one of its first recorded run
Ref(p) == Obs[CHOOSE i \in Runs(p) : \A j \in Runs(p) : i <= j].digest
RunOK(o) == /\ o.exit = 0
            /\ o.digest = Ref(o.program)          \* byte-identical output whatever the configuration
            /\ ~o.leak                            \* no absolute path, host name or time stamp in the bytes
ASSUME \A i \in DOMAIN Obs : RunOK(Obs[i]) \/ PrintT(<<"BADOBS", i>>)
ASSUME PrintT(<<"JUDGED", Len(Obs)>>)
ASSUME PrintT(<<"PROGRAMS", Cardinality(ProgramsSeen)>>)
===============================================================================
