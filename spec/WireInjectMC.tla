----------------------------- MODULE WireInjectMC -----------------------------
(***************************************************************************)
(* Exhaustive exploration of WireInject: for every program of a bounded    *)
(* family (read from the case table TLC exported) the environment chooses  *)
(* any dependency-respecting order of provider calls, lets any             *)
(* error-capable provider fail at any point, and repeats injector calls.   *)
(* TLC checks the invariants of WireInject in every reachable state plus   *)
(* the properties that are consequences rather than guards: a provider's   *)
(* cleanup runs before the cleanup of anything it was built from, nothing  *)
(* leaks into the next call, every call terminates.                        *)
(***************************************************************************)
EXTENDS WireInject, Json

CONSTANTS CasesFile, MaxCalls
Cases == ndJsonDeserialize(CasesFile)

CaseRec(i, k) == [P |-> Cases[i].prog, inj |-> Cases[i].prog.injs[k], x |-> Cases[i].expect[k]]
Accepted(i, k) == Cases[i].expect[k].verdict = "yes"

MCInit ==
  /\ \E i \in DOMAIN Cases : \E k \in DOMAIN Cases[i].prog.injs : Accepted(i, k) /\ cs = CaseRec(i, k)
  /\ phase = "idle" /\ consts = EmptyF /\ calls = 0
  /\ args = <<>> /\ outs = EmptyF /\ ran = <<>> /\ toks = EmptyF /\ acq = <<>> /\ rel = <<>>
  /\ failTok = "" /\ seen = EmptyF /\ pend = ""

\* the description of a value of type t built around token tok (what the rendered constructors produce);
\* pointer "ordinals" are strings here - they only need to be distinct
RECURSIVE MkD(_, _)
FNames(s) == {FieldsOfS(P_, s)[i].name : i \in DOMAIN FieldsOfS(P_, s)}
MkD(t, tok) ==
  IF IsPtr(P_, t) THEN
    LET el == Elem(P_, t) IN
    IF IsStructT(P_, el) /\ FieldsOfS(P_, el) # <<>>
    THEN [p |-> "&" \o tok, e |-> MkD(el, tok), fa |-> [f \in FNames(el) |-> "&" \o tok \o "." \o f]]
    ELSE [p |-> "&" \o tok, e |-> MkD(el, tok)]
  ELSE IF IsStructT(P_, t) THEN
    (IF FieldsOfS(P_, t) = <<>> THEN [v |-> "struct{}"]
     ELSE [s |-> [f \in FNames(t) |-> MkD(FieldRec(P_, t, f).type, tok \o "." \o f)]])
  ELSE [t |-> tok]
\* fresh argument values for call number c
ArgsFor(c) == [i \in DOMAIN Inj_.params |-> MkD(Inj_.params[i].type, "A" \o ToString(i) \o "#" \o ToString(c))]
HasRun(p) == \E i \in DOMAIN ran : ran[i] = p
\* the value of type t in this call: determined, or (pointer form of a struct provider) a fresh pointer to the determined struct
IsStructPtrSrc(t) == HasW(Canon(t)) /\ W(Canon(t)).k = "struct" /\ W(Canon(t)).ptr
IsFieldSrc(t) == HasW(Canon(t)) /\ W(Canon(t)).k = "field"
RECURSIVE ValOK(_), ValFor(_)
ValOK(t) == \/ Known(t).ok
            \/ IsStructPtrSrc(t) /\ StructBody(W(Canon(t))).ok
            \/ IsFieldSrc(t) /\ ValOK(W(Canon(t)).parent)
ValFor(t) ==
  IF Known(t).ok THEN Known(t).v
  ELSE IF IsFieldSrc(t) THEN
       LET w == W(Canon(t)) pv == ValFor(w.parent) IN
       IF ~w.pptr THEN pv.s[w.f]
       ELSE IF w.fptr THEN [p |-> pv.fa[w.f], e |-> pv.e.s[w.f]]
       ELSE pv.e.s[w.f]
  ELSE LET s == Elem(P_, Canon(t)) body == StructBody(W(Canon(t))).v IN
       IF FieldsOfS(P_, s) = <<>> THEN [p |-> "&St#" \o ToString(calls), e |-> body]
       ELSE [p |-> "&St#" \o ToString(calls), e |-> body, fa |-> [f \in FNames(s) |-> "&St#" \o ToString(calls) \o "." \o f]]
\* a provider may run when the value of every parameter is determined
Avail(p) == ~HasRun(p) /\ \A i \in DOMAIN FnInfo(p).ins : ValOK(FnInfo(p).ins[i])
KnownArgs(p) == [i \in DOMAIN FnInfo(p).ins |-> ValFor(FnInfo(p).ins[i])]
TokFor(p) == p \o "#" \o ToString(calls)
\* the value a provider returns
OutFor(p) == MkD(FnInfo(p).out, TokFor(p))
AllRan == \A p \in Range(X_.funcs) : HasRun(p)
NextCleanup == acq[Len(acq) - Len(rel)]

EnvEnter   == calls < MaxCalls /\ Enter(ArgsFor(calls + 1))
EnvCall    == \E p \in Range(X_.funcs) : \E ok \in BOOLEAN : phase = "running" /\ pend = "" /\ Avail(p) /\ Call(p, TokFor(p), KnownArgs(p), ok)
EnvOut     == pend # "" /\ Out(pend, OutFor(pend))
EnvUnwind  == phase \in {"failed", "invoking"} /\ Len(rel) < Len(acq) /\ Cleanup(NextCleanup, toks[NextCleanup])
EnvRetErr  == phase = "failed" /\ rel = Reverse(acq) /\ Return(ZeroD(P_, Inj_.out), TRUE, HasCl(Inj_), TRUE, HasEr(Inj_), failTok)
EnvRetOk   == phase = "running" /\ pend = "" /\ AllRan /\ ValOK(Inj_.out)
              /\ Return(ValFor(Inj_.out), FALSE, HasCl(Inj_), FALSE, HasEr(Inj_), "")
EnvInvoke  == Invoke
EnvInvoked == Invoked

MCNext == EnvEnter \/ EnvCall \/ EnvOut \/ EnvUnwind \/ EnvRetErr \/ EnvRetOk \/ EnvInvoke \/ EnvInvoked
MCSpec == MCInit /\ [][MCNext]_ivars /\ WF_ivars(EnvCall \/ EnvOut \/ EnvUnwind \/ EnvRetErr \/ EnvRetOk \/ EnvInvoke \/ EnvInvoked)

(* ---- consequences ---------------------------------------------------------- *)
\* provider functions whose results flow (through bindings, struct providers, field selections) into type t
RECURSIVE FuncsBehind(_)
FuncsBehind(t0) ==
  LET t == Canon(t0) IN
  IF ~HasW(t) THEN {}
  ELSE LET w == W(t) IN
  CASE w.k = "func"   -> {w.p}
    [] w.k = "struct" -> UNION {FuncsBehind(w.sel[i].t) : i \in DOMAIN w.sel}
    [] w.k = "field"  -> FuncsBehind(w.parent)
    [] OTHER -> {}
RECURSIVE BuiltFrom(_)
\* everything provider p was (transitively) built from
BuiltFrom(p) == LET d == UNION {FuncsBehind(FnInfo(p).ins[i]) : i \in DOMAIN FnInfo(p).ins}
                IN d \cup UNION {BuiltFrom(q) : q \in d}
PosIn(s, x) == CHOOSE i \in DOMAIN s : s[i] = x
\* C04: a provider's cleanup runs before the cleanup of anything it was built from
DependentBeforeDependency ==
  \A i, j \in DOMAIN rel : rel[j] \in BuiltFrom(rel[i]) => i < j
\* C02: providers run after everything they are built from
DependencyOrder == \A i, j \in DOMAIN ran : ran[j] \in BuiltFrom(ran[i]) => j < i
\* C03: after a failure nothing else runs
NoCallAfterFailure == failTok # "" => phase \in {"failed", "done"}
\* C03: a failed call leaves nothing behind: the next call starts from scratch
NoLeak == phase = "running" /\ ran = <<>> => (acq = <<>> /\ rel = <<>> /\ failTok = "" /\ outs = EmptyF /\ seen = EmptyF)
\* every injector call returns
Terminates == [](phase \in {"running", "failed", "returned", "invoking"} => <>(phase = "done"))
=============================================================================
