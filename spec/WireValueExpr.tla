---------------------------- MODULE WireValueExpr ----------------------------
(***************************************************************************)
(* Value expressions (property C13).  A typed grammar of Go expressions    *)
(* that may stand in a package-level initialiser, each with the attributes *)
(* the property talks about:                                               *)
(*   calls  - evaluating it calls a function or method or receives         *)
(*   unexp  - it mentions an identifier that is not exported by its home   *)
(*   iface  - its static type is an interface type                         *)
(*   alloc  - every evaluation yields a fresh pointer (so "evaluated once" *)
(*            is observable: all injector calls must see ONE pointer)      *)
(* "@" marks identifiers declared by the home package (the renderer        *)
(* qualifies them where the injector's package is a different one).        *)
(* MustReject says when Wire has to refuse; otherwise Wire may accept (and *)
(* then the injector must return exactly the home value, the same one on   *)
(* every call) or be stricter than necessary.                              *)
(***************************************************************************)
EXTENDS WireFamilies

Ex(go, sort, calls, unexp, iface, alloc) == [go |-> go, sort |-> sort, calls |-> calls, unexp |-> unexp, iface |-> iface, alloc |-> alloc,
                                             big |-> go \in {"[]int{1, 2, 3}", "@ExpSl", "@ExpSl[1:3]", "@ExpSl[1:3:5]", "@ExpArr[:]"}]   \* slices with len >= 2 and cap >= 2
Pl(go, sort) == Ex(go, sort, FALSE, FALSE, FALSE, FALSE)

Atoms ==
  { Pl("42", "int"), Pl("@ExpInt", "int"), Ex("@unexpInt", "int", FALSE, TRUE, FALSE, FALSE), Pl("@ExpC", "int"),
    Ex("@unexpC", "int", FALSE, TRUE, FALSE, FALSE), Pl("len(@ExpArr)", "int"),
    Ex("@ExpFn()", "int", TRUE, FALSE, FALSE, FALSE), Ex("@ExpFnVar()", "int", TRUE, FALSE, FALSE, FALSE),
    Ex("func() int { return 1 }()", "int", TRUE, FALSE, FALSE, FALSE), Ex("<-@ExpCh", "int", TRUE, FALSE, FALSE, FALSE),
    Ex("@ExpStruct.Meth()", "int", TRUE, FALSE, FALSE, FALSE), Pl("@ExpAny.(int)", "int"), Pl("'c' + 1", "int32"),
    Pl("\"lit\"", "string"), Pl("@ExpStr", "string"), Pl("@ExpStr + \"x\"", "string"), Pl("@ExpStr[1:2]", "string"), Pl("`raw`", "string"),
    Pl("true", "bool"), Pl("@ExpInt > 3", "bool"), Pl("!(@ExpInt > 3)", "bool"),
    Pl("1.5", "float64"), Pl("math.Pi", "float64"), Pl("2i", "complex128"),
    Pl("[]int{1, 2, 3}", "[]int"), Pl("@ExpSl", "[]int"), Pl("@ExpSl[1:3]", "[]int"), Pl("@ExpSl[1:3:5]", "[]int"), Pl("@ExpArr[:]", "[]int"),
    Pl("@ExpArr", "[3]int"), Pl("[3]int{1, 2, 3}", "[3]int"), Pl("[...]int{1, 2, 3}", "[3]int"),
    Pl("map[string]int{\"k\": 1}", "map[string]int"), Pl("@ExpMap", "map[string]int"),
    Pl("@ExpPtr", "*int"), Pl("&@ExpInt", "*int"), Ex("new(int)", "*int", TRUE, FALSE, FALSE, TRUE),
    Pl("@ExpStruct", "@ST"), Pl("@ST{A: 1}", "@ST"), Ex("@ST{A: 1, b: 2}", "@ST", FALSE, TRUE, FALSE, FALSE), Pl("*&@ExpStruct", "@ST"),
    Ex("&@ST{A: 1}", "*@ST", FALSE, FALSE, FALSE, TRUE), Pl("&@ExpStruct", "*@ST"),
    Pl("@ExpFn", "func() int"), Pl("@ExpStruct.Meth", "func() int"), Pl("func() int { return 1 }", "func() int"),
    Pl("@ExpCh", "chan int"), Pl("(chan int)(nil)", "chan int"),
    Ex("@ExpAny", "interface{}", FALSE, FALSE, TRUE, FALSE), Ex("error(nil)", "error", FALSE, FALSE, TRUE, FALSE),
    Pl("@MyInt(@ExpInt)", "@MyInt"), Pl("@MyInt(3)", "@MyInt"),
    Pl("@MyFn(@ExpFn)", "@MyFn"),        \* conversions to a named function type: they look like calls, they are not
    Pl("struct{ X int }{X: 1}", "struct{ X int }"), Pl("[]@ST{{A: 1}, {A: 2}}", "[]@ST"), Pl("[]*int{@ExpPtr}", "[]*int"),
    Pl("map[@ST]string{{A: 1}: \"one\"}", "map[@ST]string"), Pl("[]byte(\"abc\")", "[]byte"), Pl("[2][]int{{1}, {2, 3}}", "[2][]int") }

W(e, go, sort) == [e EXCEPT !.go = go, !.sort = sort, !.iface = FALSE, !.big = FALSE]
Wa(e, go, sort) == [e EXCEPT !.go = go, !.sort = sort, !.iface = FALSE, !.alloc = TRUE, !.big = FALSE]
Wu(e, go, sort) == [e EXCEPT !.go = go, !.sort = sort, !.iface = FALSE, !.unexp = TRUE, !.big = FALSE]
\* one more layer of syntax around an expression e
Derived(e) ==
  CASE e.sort = "int" ->
         { W(e, "-(" \o e.go \o ")", "int"), W(e, "(" \o e.go \o ") + 1", "int"), W(e, "((" \o e.go \o "))", "int"),
           W(e, "@MyInt(" \o e.go \o ")", "@MyInt"), W(e, "float64(" \o e.go \o ")", "float64"), W(e, "(" \o e.go \o ") > 3", "bool"),
           W(e, "[]int{" \o e.go \o "}", "[]int"), W(e, "map[string]int{\"k\": " \o e.go \o "}", "map[string]int"),
           W(e, "@ST{A: " \o e.go \o "}", "@ST"), Wa(e, "&@ST{A: " \o e.go \o "}", "*@ST"), W(e, "@ExpSl[((" \o e.go \o ")%2+2)%2:]", "[]int") }
    [] e.sort = "[]int" ->
         { W(e, "(" \o e.go \o ")[0]", "int"), W(e, "[][]int{" \o e.go \o "}", "[][]int") }
         \cup (IF e.big THEN { W(e, "(" \o e.go \o ")[1:2]", "[]int"), W(e, "(" \o e.go \o ")[0:1:2]", "[]int") } ELSE {})
    [] e.sort = "@ST" ->
         { W(e, "(" \o e.go \o ").A", "int"), Wu(e, "(" \o e.go \o ").b", "int"), W(e, "[]@ST{" \o e.go \o "}", "[]@ST") }
    [] e.sort = "*int" -> { W(e, "*(" \o e.go \o ")", "int"), W(e, "[]*int{" \o e.go \o "}", "[]*int") }
    [] e.sort = "*@ST" -> { W(e, "(" \o e.go \o ").A", "int"), W(e, "*(" \o e.go \o ")", "@ST") }
    [] e.sort = "string" -> { W(e, "(" \o e.go \o ") + \"y\"", "string"), W(e, "[]byte(" \o e.go \o ")", "[]byte"), W(e, "[]string{" \o e.go \o "}", "[]string") }
    [] e.sort = "[3]int" -> { W(e, "(" \o e.go \o ")[1]", "int"), W(e, "len(" \o e.go \o ")", "int") }
    [] e.sort = "map[string]int" -> { W(e, "(" \o e.go \o ")[\"k\"]", "int") }
    [] e.sort = "func() int" -> { [W(e, "(" \o e.go \o ")()", "int") EXCEPT !.calls = TRUE], W(e, "@MyFn(" \o e.go \o ")", "@MyFn") }
    [] e.sort = "@MyFn" -> { [W(e, "(" \o e.go \o ")()", "int") EXCEPT !.calls = TRUE], W(e, "(func() int)(" \o e.go \o ")", "func() int") }
    [] e.sort = "chan int" -> { [W(e, "<-(" \o e.go \o ")", "int") EXCEPT !.calls = TRUE] }
    [] e.sort = "interface{}" -> { W(e, "(" \o e.go \o ").(int)", "int") }
    [] OTHER -> {}
Depth2 == UNION {Derived(e) : e \in Atoms}
Depth3 == UNION {Derived(e) : e \in Depth2}

\* home: "a" the injector's package, "b" another package (the value sits in a provider set of b)
MustReject(e, home, marker) ==
  \/ e.calls
  \/ home # "a" /\ e.unexp
  \/ marker = "Value" /\ e.iface
  \/ marker = "InterfaceValue:Big" /\ e.go # "@HeldBig"        \* only HeldBig implements Big (ST has Meth only, Small lacks B)
\* the documentation excludes function calls, channel receives and references to unexported identifiers of other packages -
\* nothing else; function literals are refused by Wire today ("too complex") and are left open here, every other call-free
\* expression must be accepted (C10: well-formed programs are accepted)
HasSub(str, sub) == \E i \in 1..(Len(str) - Len(sub) + 1) : SubSeq(str, i, i + Len(sub) - 1) = sub
MustAccept(e, home, marker) == ~MustReject(e, home, marker) /\ marker # "InterfaceValue:Big" /\ ~HasSub(e.go, "func() int {")
RejectReason(e, home, marker) == IF e.calls \/ (marker = "Value" /\ e.iface) THEN "sig" ELSE "value-access"

ValProg(e, home, marker, d) ==
  [Prog("E/d" \o ToString(d) \o "/" \o home \o "/" \o marker \o "/" \o e.go, "E", <<>>, <<>>, <<>>, <<>>) EXCEPT !.fam = "E"]
  @@ [value |-> [e |-> e, home |-> home, marker |-> marker]]
\* home "bs": another package that has the SAME PACKAGE NAME as the injector's package (imported under an alias)
FamilyE(p, depth) ==
  \/ \E e \in Atoms : p = ValProg(e, "bs", "Value", 1)
  \/ \E home \in {"a", "b"} :
    \/ \E e \in Atoms : p = ValProg(e, home, "Value", 1)
    \/ depth >= 2 /\ \E e \in Depth2 : p = ValProg(e, home, "Value", 2)
    \/ depth >= 3 /\ \E e \in Depth3 : p = ValProg(e, home, "Value", 3)
    \/ \E e \in {x \in Atoms : x.sort \in {"int", "@ST", "*@ST", "@MyInt"}} : p = ValProg(e, home, "InterfaceValue", 1)
    \* interface values whose expression has an interface type: HeldBig has both methods of Big, HeldSmall only one
    \/ p = ValProg(Ex("@HeldBig", "@Big", FALSE, FALSE, TRUE, FALSE), home, "InterfaceValue:Big", 1)
    \/ p = ValProg(Ex("@HeldSmall", "@Small", FALSE, FALSE, TRUE, FALSE), home, "InterfaceValue:Big", 1)
    \/ p = ValProg(Ex("@ExpStruct", "@ST", FALSE, FALSE, FALSE, FALSE), home, "InterfaceValue:Big", 1)

CaseE(P) ==
  LET v == P.value
      mr == MustReject(v.e, v.home, v.marker)
  IN [key |-> P.key, fam |-> "E", prog |-> P,
      expect |-> <<[inj |-> "Inject", verdict |-> IF mr THEN "no" ELSE IF MustAccept(v.e, v.home, v.marker) THEN "yes" ELSE "free",
                    reasons |-> IF mr THEN {RejectReason(v.e, v.home, v.marker)} ELSE {},
                    ambiguous |-> {}, cyclic |-> {}, missing |-> {}, unused |-> {}, funcs |-> {}, wiring |-> [t \in {} |-> 0], scheds |-> <<>>]>>,
      alloc |-> v.e.alloc, invalidsets |-> {}]
=============================================================================
