--------------------------- MODULE WireInjectTrace ---------------------------
(***************************************************************************)
(* Trace validation: every event recorded from the real generated          *)
(* injectors (instrumented providers + driver, see harness/rt) must be a   *)
(* step of WireInject.  Many traces per run, separated by "reset" events   *)
(* that name the case; a trace with an event that is not a step is         *)
(* reported (REJECT line) and skipped up to the next reset, so one finding *)
(* never hides the rest.  Fully logged events make the search linear.      *)
(***************************************************************************)
EXTENDS WireInject, Json

CONSTANTS CasesFile, TraceFile

Cases == ndJsonDeserialize(CasesFile)
Trace == ndJsonDeserialize(TraceFile)

VARIABLE l     \* position in Trace
tvars == <<ivars, l>>

Ev == Trace[l]
More == l <= Len(Trace)

InjIndex(c, name) == CHOOSE i \in DOMAIN c.prog.injs : c.prog.injs[i].name = name
CaseOf(e) == LET c == Cases[e.ci] i == InjIndex(c, e.inj)
             IN [P |-> c.prog, inj |-> c.prog.injs[i], x |-> c.expect[i]]

TInit ==
  /\ l = 1
  /\ cs = [none |-> TRUE] /\ phase = "skip" /\ consts = EmptyF /\ calls = 0
  /\ args = <<>> /\ outs = EmptyF /\ ran = <<>> /\ toks = EmptyF /\ acq = <<>> /\ rel = <<>>
  /\ failTok = "" /\ seen = EmptyF /\ pend = ""

Step(A) == More /\ A /\ l' = l + 1

TReset   == Step(Ev.e = "reset"   /\ StartCase(CaseOf(Ev)))
TEnter   == Step(Ev.e = "enter"   /\ phase # "skip" /\ Enter(Ev.args))
TCall    == Step(Ev.e = "call"    /\ phase # "skip" /\ Call(Ev.p, Ev.tok, Ev.args, Ev.ok))
TOut     == Step(Ev.e = "out"     /\ phase # "skip" /\ Out(Ev.p, Ev.v))
TCleanup == Step(Ev.e = "cleanup" /\ phase # "skip" /\ Cleanup(Ev.p, Ev.tok))
TReturn  == Step(Ev.e = "return"  /\ phase # "skip" /\ Return(Ev.v, Ev.zero, Ev.hasCl, Ev.clNil, Ev.hasErr, Ev.err))
TInvoke  == Step(Ev.e = "invoke"  /\ phase # "skip" /\ Invoke)
TInvoked == Step(Ev.e = "invoked" /\ phase # "skip" /\ Invoked)
\* events of a trace that has already been rejected
TSkip    == Step(Ev.e # "reset" /\ phase = "skip" /\ UNCHANGED ivars)

Normal == TReset \/ TEnter \/ TCall \/ TOut \/ TCleanup \/ TReturn \/ TInvoke \/ TInvoked \/ TSkip

\* the event is not a step of the machine: report, then skip to the next reset
TReject ==
  /\ More
  /\ ~ENABLED Normal
  /\ PrintT(<<"REJECT", l, Ev.ci, Ev.sched, Ev.e, phase>>)
  /\ phase' = "skip"
  /\ l' = l + 1
  /\ UNCHANGED <<cs, args, outs, ran, toks, acq, rel, failTok, seen, consts, pend, calls>>

TNext == Normal \/ TReject
TSpec == TInit /\ [][TNext]_tvars

\* the whole trace was consumed
Consumed == TLCGet("stats").diameter = Len(Trace) + 1
PostOK == PrintT(<<"CONSUMED", TLCGet("stats").diameter - 1, Len(Trace)>>) /\ Consumed
=============================================================================
