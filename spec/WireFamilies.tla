---------------------------- MODULE WireFamilies ----------------------------
(***************************************************************************)
(* Bounded families of Wire programs, one per region of the input space    *)
(* the properties quantify over, and the per-case expectation record that  *)
(* is exported next to each program.                                       *)
(***************************************************************************)
EXTENDS WireSem, SequencesExt

RECURSIVE Pow2(_)
Pow2(k) == IF k = 0 THEN 1 ELSE 2 * Pow2(k - 1)
RECURSIVE ConcatStr(_)
ConcatStr(s) == IF s = <<>> THEN "" ELSE Head(s) \o ConcatStr(Tail(s))

(* ---- expectation exported with every case -------------------------------- *)
RECURSIVE LevelAmbig(_, _, _)
LevelAmbig(P, items, params) ==
  AmbiguousTypes(P, items, params)
  \cup UNION {LevelAmbig(P, P.sets[items[j].i].items, <<>>) : j \in {x \in DOMAIN items : items[x].k = "set"}}
RECURSIVE LevelCyclic(_, _, _)
LevelCyclic(P, items, params) ==
  CyclicTypes(P, items, params)
  \cup UNION {LevelCyclic(P, P.sets[items[j].i].items, <<>>) : j \in {x \in DOMAIN items : items[x].k = "set"}}

ItemName(P, it) == IF it.k = "leaf" THEN P.leaves[it.i].name ELSE P.sets[it.i].name

InjExpect(P, inj) ==
  LET v    == Verdict(P, inj)
      r    == Reasons(P, inj)
      lok  == InjSigOK(inj) /\ ItemsLeavesOK(P, inj.items)
      lvl  == lok /\ LevelReasons(P, inj.items, inj.params) = {}
  IN [inj       |-> inj.name,
      verdict   |-> v,
      reasons   |-> r,
      ambiguous |-> IF lok /\ "ambiguous" \in r THEN LevelAmbig(P, inj.items, inj.params) ELSE {},
      cyclic    |-> IF lok /\ "cycle" \in r THEN LevelCyclic(P, inj.items, inj.params) ELSE {},
      missing   |-> IF lvl THEN Missing(P, inj) ELSE {},
      unused    |-> IF lvl /\ Missing(P, inj) = {} THEN {ItemName(P, inj.items[j]) : j \in UnusedItems(P, inj)} ELSE {},
      funcs     |-> IF v # "no" THEN {P.leaves[i].name : i \in NeededFuncs(P, inj)} ELSE {},
      wiring    |-> IF v # "no" THEN Wiring(P, inj) ELSE [t \in {} |-> 0]]

Case(P) == [key |-> P.key, fam |-> P.fam, prog |-> P,
            expect |-> [i \in DOMAIN P.injs |-> InjExpect(P, P.injs[i])]]

(* ======================================================================== *)
(* Family G: every digraph over n types.  Node kinds: "f" provider function *)
(* (its parameters are its successors, ascending), "p" injector parameter,  *)
(* "n" nothing provides it.  Only "f" nodes have outgoing edges.  The       *)
(* injector asks for T1.  wrap: "set" = wire.Build(SetA) with all providers *)
(* in SetA (so unused or cyclic parts are legal/visible), "dir" = all       *)
(* providers passed to wire.Build directly.                                 *)
(* ======================================================================== *)
EdgeCode(n, E) == SumSeq([k \in 1..(n * n) |->
                    IF <<((k - 1) \div n) + 1, ((k - 1) % n) + 1>> \in E THEN Pow2(k - 1) ELSE 0])
GProg(n, E, kd, wrap) ==
  LET fn     == SeqOfSet({i \in 1..n : kd[i] = "f"})
      succ(i)== SeqOfSet({j \in 1..n : <<i, j>> \in E})
      leaves == [k \in DOMAIN fn |-> Func(PN(fn[k]), [x \in DOMAIN succ(fn[k]) |-> TN(succ(fn[k])[x])], TN(fn[k]), FALSE, FALSE)]
      pars   == SeqOfSet({i \in 1..n : kd[i] = "p"})
      params == [k \in DOMAIN pars |-> Par("a" \o ToString(pars[k]), TN(pars[k]))]
      all    == [k \in DOMAIN fn |-> ItL(k)]
      key    == "G/n" \o ToString(n) \o "/e" \o ToString(EdgeCode(n, E)) \o "/" \o ConcatStr(kd) \o "/" \o wrap
  IN Prog(key, "G", [i \in 1..n |-> Tok(TN(i))], leaves,
          IF wrap = "set" THEN <<SetD("SetA", "a", all)>> ELSE <<>>,
          <<Inj("Inject", params, TN(1), FALSE, FALSE, IF wrap = "set" THEN <<ItS(1)>> ELSE all)>>)

\* kinds: "all" = every assignment of {f,p,n}; "f" = all nodes are providers (the cycle family)
\* (an Init predicate over p, so that TLC enumerates the family as initial states)
FamilyG(p, n, kinds, wraps) ==
  \E kd \in (IF kinds = "f" THEN {[i \in 1..n |-> "f"]} ELSE [1..n -> {"f", "p", "n"}]) :
    \E E \in SUBSET ({i \in 1..n : kd[i] = "f"} \X (1..n)) :
      \E w \in wraps : p = GProg(n, E, kd, w)
======================================================================== *)
(* Family G: every digraph over n types.  Node kinds: "f" provider function *)
(* (its parameters are its successors, ascending), "p" injector parameter,  *)
(* "n" nothing provides it.  Only "f" nodes have outgoing edges.  The       *)
(* injector asks for T1.  wrap: "set" = wire.Build(SetA) with all providers *)
(* in SetA (so unused or cyclic parts are legal/visible), "dir" = all       *)
(* providers passed to wire.Build directly.                                 *)
(* ======================================================================== *)
EdgeCode(n, E) == SumSeq([k \in 1..(n * n) |->
                    IF <<((k - 1) \div n) + 1, ((k - 1) % n) + 1>> \in E THEN Pow2(k - 1) ELSE 0])
GProg(n, E, kd, wrap) ==
  LET fn     == SeqOfSet({i \in 1..n : kd[i] = "f"})
      succ(i)== SeqOfSet({j \in 1..n : <<i, j>> \in E})
      leaves == [k \in DOMAIN fn |-> Func(PN(fn[k]), [x \in DOMAIN succ(fn[k]) |-> TN(succ(fn[k])[x])], TN(fn[k]), FALSE, FALSE)]
      pars   == SeqOfSet({i \in 1..n : kd[i] = "p"})
      params == [k \in DOMAIN pars |-> Par("a" \o ToString(pars[k]), TN(pars[k]))]
      all    == [k \in DOMAIN fn |-> ItL(k)]
      key    == "G/n" \o ToString(n) \o "/e" \o ToString(EdgeCode(n, E)) \o "/" \o ConcatStr(kd) \o "/" \o wrap
  IN Prog(key, "G", [i \in 1..n |-> Tok(TN(i))], leaves,
          IF wrap = "set" THEN <<SetD("SetA", "a", all)>> ELSE <<>>,
          <<Inj("Inject", params, TN(1), FALSE, FALSE, IF wrap = "set" THEN <<ItS(1)>> ELSE all)>>)

\* kinds: "all" = every assignment of {f,p,n}; "f" = all nodes are providers (the cycle family)
FamilyG(n, kinds, wraps) ==
  UNION { UNION { { GProg(n, E, kd, w) : w \in wraps }
                  : E \in SUBSET ({i \in 1..n : kd[i] = "f"} \X (1..n)) }
          : kd \in IF kinds = "f" THEN {[i \in 1..n |-> "f"]} ELSE [1..n -> {"f", "p", "n"}] }
=============================================================================
