---------------------------- MODULE WireFamilies ----------------------------
(***************************************************************************)
(* Bounded families of Wire programs, one per region of the input space    *)
(* the properties quantify over, and the per-case expectation record that  *)
(* is exported next to each program.                                       *)
(***************************************************************************)
EXTENDS WireSem, SequencesExt, Randomization

RECURSIVE Pow2(_)
Pow2(k) == IF k = 0 THEN 1 ELSE 2 * Pow2(k - 1)
RECURSIVE ConcatStr(_)
ConcatStr(s) == IF s = <<>> THEN "" ELSE Head(s) \o ConcatStr(Tail(s))

(* ---- expectation exported with every case -------------------------------- *)
RECURSIVE LevelAmbig(_, _, _)
LevelAmbig(P, items, params) ==
  AmbiguousTypes(P, items, params)
  \cup UNION {LevelAmbig(P, P.sets[items[j].i].items, <<>>) : j \in {x \in DOMAIN items : items[x].k = "set"}}
RECURSIVE LevelCyclic(_, _, _)
LevelCyclic(P, items, params) ==
  CyclicTypes(P, items, params)
  \cup UNION {LevelCyclic(P, P.sets[items[j].i].items, <<>>) : j \in {x \in DOMAIN items : items[x].k = "set"}}

\* fault schedules: one entry per injector call, "" = no failure, else the provider told to fail.
\* Family R: two clean calls, every single failure point, and alternations fail/ok/fail, ok/fail/ok.
Scheds(P, inj) ==
  LET F == {P.leaves[i].name : i \in {j \in NeededFuncs(P, inj) : HasEr(P.leaves[j])}} IN
  IF P.fam = "R"
  THEN SetToSeq({<<"", "">>} \cup {<<p>> : p \in F} \cup {<<p, "", p>> : p \in F} \cup {<<"", p, "">> : p \in F})
  ELSE <<<<"", "">>>>

ItemName(P, it) == IF it.k = "leaf" THEN P.leaves[it.i].name ELSE P.sets[it.i].name

InjExpect(P, inj) ==
  LET v    == Verdict(P, inj)
      r    == Reasons(P, inj)
      lok  == InjSigOK(inj) /\ ItemsLeavesOK(P, inj.items)
      lvl  == lok /\ LevelReasons(P, inj.items, inj.params) = {}
  IN [inj       |-> inj.name,
      verdict   |-> v,
      reasons   |-> r,
      ambiguous |-> IF lok /\ "ambiguous" \in r THEN LevelAmbig(P, inj.items, inj.params) ELSE {},
      cyclic    |-> IF lok /\ "cycle" \in r THEN LevelCyclic(P, inj.items, inj.params) ELSE {},
      missing   |-> IF lvl THEN Missing(P, inj) ELSE {},
      unused    |-> IF lvl /\ Missing(P, inj) = {} THEN {ItemName(P, inj.items[j]) : j \in UnusedItems(P, inj)} ELSE {},
      funcs     |-> IF v # "no" THEN {P.leaves[i].name : i \in NeededFuncs(P, inj)} ELSE {},
      wiring    |-> IF v # "no" THEN Wiring(P, inj) ELSE [t \in {} |-> 0],
      scheds    |-> IF v # "no" THEN Scheds(P, inj) ELSE <<>>]

\* top-level provider-set variables that are not well-formed by themselves (wire check must report them even when no injector uses them)
InvalidSets(P) == {P.sets[j].pkg \o "." \o P.sets[j].name :
                     j \in {x \in DOMAIN P.sets : ~InlineSet(P.sets[x]) /\ ~(ItemsLeavesOK(P, P.sets[x].items) /\ LevelReasons(P, P.sets[x].items, <<>>) = {})}}
\* size of the provider graph: the analysis must be linear in it (C07), whatever the number of paths
RECURSIVE GraphSize(_, _)
GraphSize(P, items) ==
  SumSeq([j \in DOMAIN items |->
            IF items[j].k = "set" THEN GraphSize(P, P.sets[items[j].i].items)
            ELSE LET l == P.leaves[items[j].i] IN 1 + Len(l.ins) + Len(l.sel) + Len(l.names)])
\* iterations the cycle search / the planner may take: quadratic in (nodes + edges) for each set level they look at - far below
\* the number of paths of the scaling lattices (2^20, 2^40), far above any path-independent algorithm
WorkBound(P) ==
  LET sz == 1 + SumSeq([i \in DOMAIN P.injs |-> GraphSize(P, P.injs[i].items) + Len(P.injs[i].params)])
  IN 8 * (Len(P.sets) + Len(P.injs) + 1) * sz * sz
Case(P) == [key |-> P.key, fam |-> P.fam, prog |-> P,
            expect |-> [i \in DOMAIN P.injs |-> InjExpect(P, P.injs[i])],
            invalidsets |-> InvalidSets(P), workbound |-> WorkBound(P)]

(* ======================================================================== *)
(* Family G: every digraph over n types.  Node kinds: "f" provider function *)
(* (its parameters are its successors, ascending), "p" injector parameter,  *)
(* "n" nothing provides it.  Only "f" nodes have outgoing edges.  The       *)
(* injector asks for T1.  wrap: "set" = wire.Build(SetA) with all providers *)
(* in SetA (so unused or cyclic parts are legal/visible), "dir" = all       *)
(* providers passed to wire.Build directly.                                 *)
(* ======================================================================== *)
EdgeCode(n, E) == SumSeq([k \in 1..(n * n) |->
                    IF <<((k - 1) \div n) + 1, ((k - 1) % n) + 1>> \in E THEN Pow2(k - 1) ELSE 0])
\* a printable name for an edge set (EdgeCode overflows TLC's integers beyond n = 5)
EdgeStr(n, E) == ConcatStr([k \in 1..(n * n) |-> IF <<((k - 1) \div n) + 1, ((k - 1) % n) + 1>> \in E
                                                  THEN ToString(((k - 1) \div n) + 1) \o ToString(((k - 1) % n) + 1) \o "." ELSE ""])
GProg(n, E, kd, wrap) ==
  LET fn     == SeqOfSet({i \in 1..n : kd[i] = "f"})
      succ(i)== SeqOfSet({j \in 1..n : <<i, j>> \in E})
      leaves == [k \in DOMAIN fn |-> Func(PN(fn[k]), [x \in DOMAIN succ(fn[k]) |-> TN(succ(fn[k])[x])], TN(fn[k]), FALSE, FALSE)]
      pars   == SeqOfSet({i \in 1..n : kd[i] = "p"})
      params == [k \in DOMAIN pars |-> Par("a" \o ToString(pars[k]), TN(pars[k]))]
      all    == [k \in DOMAIN fn |-> ItL(k)]
      key    == "G/n" \o ToString(n) \o "/e" \o (IF n <= 5 THEN ToString(EdgeCode(n, E)) ELSE EdgeStr(n, E)) \o "/" \o ConcatStr(kd) \o "/" \o wrap
  IN Prog(key, "G", [i \in 1..n |-> Tok(TN(i))], leaves,
          IF wrap = "set" THEN <<SetD("SetA", "a", all)>> ELSE <<>>,
          <<Inj("Inject", params, TN(1), FALSE, FALSE, IF wrap = "set" THEN <<ItS(1)>> ELSE all)>>)

\* kinds: "all" = every assignment of {f,p,n}; "f" = all nodes are providers (the cycle family)
\* (an Init predicate over p, so that TLC enumerates the family as initial states)
FamilyG(p, n, kinds, wraps) ==
  \E kd \in (IF kinds = "f" THEN {[i \in 1..n |-> "f"]} ELSE [1..n -> {"f", "p", "n"}]) :
    \E E \in SUBSET ({i \in 1..n : kd[i] = "f"} \X (1..n)) :
      \E w \in wraps : p = GProg(n, E, kd, w)


(* ======================================================================== *)
(* Family R (run time): DAGs of n provider functions in every flavour       *)
(* assignment {plain, error, cleanup, cleanup+error}^n.  Edges go from i to *)
(* a larger j and every node but T1 has a predecessor, so every provider is *)
(* needed.  inj: "ce" the injector declares cleanup and error, "min" it     *)
(* declares exactly what it needs.  Exported with fault schedules.          *)
(* ======================================================================== *)
FlCl(c) == c \in {"c", "b"}
FlEr(c) == c \in {"e", "b"}
RProg(n, E, fl, injd) ==
  LET succ(i) == SeqOfSet({j \in 1..n : <<i, j>> \in E})
      leaves  == [i \in 1..n |-> Func(PN(i), [x \in DOMAIN succ(i) |-> TN(succ(i)[x])], TN(i), FlCl(fl[i]), FlEr(fl[i]))]
      ncl     == \E i \in 1..n : FlCl(fl[i])
      ner     == \E i \in 1..n : FlEr(fl[i])
      key     == "R/n" \o ToString(n) \o "/e" \o (IF n <= 5 THEN ToString(EdgeCode(n, E)) ELSE EdgeStr(n, E)) \o "/" \o ConcatStr(fl) \o "/" \o injd
  IN Prog(key, "R", [i \in 1..n |-> Tok(TN(i))], leaves, <<>>,
          <<Inj("Inject", <<>>, TN(1), IF injd = "ce" THEN TRUE ELSE ncl, IF injd = "ce" THEN TRUE ELSE ner,
                [i \in 1..n |-> ItL(i)])>>)
FamilyR(p, n) ==
  \E E \in SUBSET {e \in (1..n) \X (1..n) : e[1] < e[2]} :
    /\ \A j \in 2..n : \E i \in 1..(j - 1) : <<i, j>> \in E
    /\ \E fl \in [1..n -> {"p", "e", "c", "b"}] :
         \E injd \in {"ce", "min"} : p = RProg(n, E, fl, injd)

\* larger random DAGs (n up to 7): k random edge sets of about n+2 edges, two random flavour assignments each (TLC -seed decides)
FamilyRBig(p, n, k) ==
  \E E \in RandomSetOfSubsets(k, n + 2, {e \in (1..n) \X (1..n) : e[1] < e[2]}) :
    /\ \A j \in 2..n : \E i \in 1..(j - 1) : <<i, j>> \in E
    /\ \E fl \in RandomSubset(2, [1..n -> {"p", "e", "c", "b"}]) : p = RProg(n, E, fl, "ce")

(* ======================================================================== *)
(* Family K (ambiguity): two sources of one type t, for every pair of       *)
(* source kinds that can provide t, in every placement.                     *)
(* ======================================================================== *)
KTypes == {"T1", "*T1", "S1", "*S1", "I1", "[]T1"}
KKinds(t) ==
  CASE t = "T1"   -> {"func", "value", "field", "param"}
    [] t = "*T1"  -> {"func", "value", "field", "fieldptr", "param"}
    [] t = "S1"   -> {"func", "struct", "value", "field", "param"}
    [] t = "*S1"  -> {"func", "struct", "value", "field", "fieldptr", "param"}
    [] t = "I1"   -> {"func", "ivalue", "bind", "field", "param"}
    [] t = "[]T1" -> {"func", "value", "field", "param"}
KPlaces == {"same", "nested", "sibling", "inner", "deep", "otherpkg"}
\* the leaves source number n (1 or 2) of kind k contributes: the source itself first, then what it needs
KSrcLeaves(k, t, n, pkg) ==
  LET sn == ToString(n)
      par == "S" \o ToString(n + 1)
  IN CASE k = "func"     -> <<FuncIn("F" \o sn, pkg, <<>>, t, FALSE, FALSE)>>
       [] k = "value"    -> <<ValueL("V" \o sn, t)>>
       [] k = "struct"   -> <<StructL("St" \o sn, "S1", <<>>, FALSE)>>
       [] k = "ivalue"   -> <<IValueL("IV" \o sn, "I1", "C1")>>
       [] k = "bind"     -> <<BindL("B" \o sn, "I1", IF n = 1 THEN "C1" ELSE "*C2"),
                              FuncIn("PC" \o sn, pkg, <<>>, IF n = 1 THEN "C1" ELSE "*C2", FALSE, FALSE)>>
       [] k = "field"    -> <<FieldsL("FO" \o sn, par, <<"F">>), FuncIn("PS" \o sn, pkg, <<>>, par, FALSE, FALSE)>>
       [] k = "fieldptr" -> <<FieldsL("FO" \o sn, Ptr(par), <<"F">>), FuncIn("PS" \o sn, pkg, <<>>, Ptr(par), FALSE, FALSE)>>
       [] OTHER          -> <<>>      \* param, twice
\* type of field F of the parent struct of source n
KFieldType(k, t) == IF k = "fieldptr" THEN (IF t = "*T1" THEN "T1" ELSE "S1") ELSE t
KProg(t, k1, k2, place, used, al) ==
  LET tp   == IF place = "otherpkg" THEN "c" ELSE "a"       \* package of the types
      sp   == IF place = "otherpkg" THEN "b" ELSE "a"       \* package of source 1 and its set
      atoms == << TokIn("T1", tp), TokIn("T8", tp), TokIn("T9", tp),
                  MkAtom("C1", "tok", tp, <<>>, <<>>, <<Impl("I1", "value")>>, ""),
                  MkAtom("C2", "tok", tp, <<>>, <<>>, <<Impl("I1", "pointer")>>, ""),
                  Iface("I1", tp, <<>>),
                  StructT("S1", tp, <<Fld("X", "T8")>>),
                  StructT("S2", tp, <<Fld("F", KFieldType(k1, t))>>),
                  StructT("S3", tp, <<Fld("F", KFieldType(k2, t))>>) >>
      l1raw == KSrcLeaves(k1, t, 1, sp)
      l1   == IF al /\ l1raw # <<>> THEN [l1raw EXCEPT ![1].alias = TRUE] ELSE l1raw       \* source 1 spelled through a type alias
      l2   == KSrcLeaves(k2, t, 2, "a")
      cons == Func("P9", IF used THEN <<t>> ELSE <<>>, "T9", FALSE, FALSE)
      leaves == l1 \o l2 \o <<cons>>
      i1   == [j \in DOMAIN l1 |-> ItL(j)]
      i2   == [j \in DOMAIN l2 |-> ItL(Len(l1) + j)]
      ic   == <<ItL(Len(l1) + Len(l2) + 1)>>
      params == (IF k1 = "param" THEN <<Par("x1", t)>> ELSE <<>>) \o (IF k2 = "param" THEN <<Par("x2", t)>> ELSE <<>>)
      sets == CASE place \in {"nested", "otherpkg"} -> <<SetD("SetA", sp, i1)>>
                [] place = "sibling" -> <<SetD("SetA", "a", i1), SetD("SetB", "a", i2)>>
                [] place = "inner"   -> <<SetD("SetA", "a", i1 \o i2)>>
                [] place = "deep"    -> <<SetD("SetA", "a", i1), SetD("SetB", "a", <<ItS(1)>>)>>
                [] place = "twice"   -> <<SetD("SetA", "a", i1), SetD("SetB", "a", <<ItS(1)>>)>>
                [] OTHER -> <<>>
      bitems == CASE place = "same" -> i1 \o i2 \o ic
                  [] place \in {"nested", "otherpkg"} -> <<ItS(1)>> \o i2 \o ic
                  [] place = "sibling" -> <<ItS(1), ItS(2)>> \o ic
                  [] place = "inner"   -> <<ItS(1)>> \o ic
                  [] place = "deep"    -> <<ItS(2)>> \o i2 \o ic
                  [] place = "twice"   -> <<ItS(1), ItS(2)>> \o ic
      key  == "K/" \o t \o "/" \o k1 \o "+" \o k2 \o "/" \o place \o "/" \o (IF used THEN "used" ELSE "unused") \o (IF al THEN "/alias" ELSE "")
  IN Prog(key, "K", atoms, leaves, sets, <<Inj("Inject", params, "T9", FALSE, FALSE, bitems)>>)
KOrd(k) == CHOOSE i \in 1..8 : <<"func", "value", "struct", "ivalue", "bind", "field", "fieldptr", "param">>[i] = k
FamilyK(p, types) ==
  \E t \in types : \E k1 \in KKinds(t) : \E used \in BOOLEAN : \E al \in BOOLEAN :
     /\ al => k1 \in {"func", "value", "struct", "bind", "field", "fieldptr"}
     /\ (\/ \E k2 \in KKinds(t) : \E place \in KPlaces :
              /\ KOrd(k1) <= KOrd(k2) \/ place \in {"nested", "deep", "otherpkg"}    \* unordered pair unless the placement is asymmetric
              /\ k1 = "param" => place = "same"
              /\ k2 = "param" => place \in {"same", "nested", "otherpkg"}
              /\ p = KProg(t, k1, k2, place, used, al)
         \/ k1 # "param" /\ p = KProg(t, k1, "twice", "twice", used, al))

(* ======================================================================== *)
(* Family B (bindings).  C is a struct type with the marker method of the   *)
(* interface on a value or pointer receiver; wire.Bind(new(I), new(bound)); *)
(* the bound type is provided in one of six ways; one or two consumers of I *)
(* and optionally one of the bound type; the binding sits next to / above / *)
(* below the provider of the bound type.  Near misses: no binding at all,   *)
(* binding an interface to itself, binding a type that does not implement.  *)
(* ======================================================================== *)
BProg(recv, ptr, ifc, how, nI, nC, coloc, mode) ==
  LET bound == IF ptr THEN "*C" ELSE "C"
      I     == CASE ifc = "plain" -> "I1" [] ifc = "embed" -> "I2" [] ifc = "embedonly-ok" -> "I4" [] ifc = "embedonly-missing" -> "I5" [] OTHER -> "I3"
      atoms == << Tok("T5"), Tok("T6"), Tok("T7"), Tok("T8"), Tok("T9"),
                  Iface("I1", "a", <<>>), Iface("I2", "a", <<"I1">>), Iface("I3", "b", <<>>), Iface("I6", "a", <<>>),
                  MkAtom("I4", "iface", "a", <<>>, <<"I1", "I2">>, <<>>, "noown"),      \* only embedded interfaces, no method of its own
                  MkAtom("I5", "iface", "a", <<>>, <<"I1", "I6">>, <<>>, "noown"),      \* ... one of which C does not implement
                  MkAtom("C", "struct", "a", <<Fld("X", "T8")>>, <<>>,
                         <<Impl("I1", recv), Impl("I2", recv), Impl("I3", recv)>>, ""),
                  StructT("S2", "a", <<Fld("F", bound)>>) >>
      bind  == CASE mode = "ok"        -> <<BindL("B1", I, bound)>>
                 [] mode = "self"      -> <<BindL("B1", I, I)>>
                 [] mode = "unrelated" -> <<BindL("B1", I, "T8")>>
                 [] OTHER              -> <<>>                       \* "nobind"
      prov  == CASE how \in {"func", "nested"} -> <<Func("PC", <<>>, bound, FALSE, FALSE)>>
                 [] how = "struct" -> <<StructL("SC", "C", <<>>, FALSE)>>
                 [] how = "value"  -> <<ValueL("VC", bound)>>
                 [] how = "field"  -> <<FieldsL("FC", "S2", <<"F">>), Func("PS2", <<>>, "S2", FALSE, FALSE)>>
                 [] OTHER          -> <<>>                           \* "param"
      extra == IF mode = "unrelated" THEN <<Func("PT8", <<>>, "T8", FALSE, FALSE)>> ELSE <<>>
      cons  == <<Func("Q1", <<I>>, "T5", FALSE, FALSE)>>
               \o (IF nI = 2 THEN <<Func("Q2", <<I>>, "T6", FALSE, FALSE)>> ELSE <<>>)
               \o (IF nC = 1 THEN <<Func("QC", <<bound>>, "T7", FALSE, FALSE)>> ELSE <<>>)
      top   == Func("Top", <<"T5">> \o (IF nI = 2 THEN <<"T6">> ELSE <<>>) \o (IF nC = 1 THEN <<"T7">> ELSE <<>>), "T9", FALSE, FALSE)
      leaves == bind \o prov \o extra \o cons \o <<top>>
      nb == Len(bind)  np == Len(prov)
      ib == [j \in DOMAIN bind |-> ItL(j)]
      ip == [j \in DOMAIN prov |-> ItL(nb + j)]
      ir == [j \in 1..(Len(leaves) - nb - np) |-> ItL(nb + np + j)]
      sets == CASE coloc = "inner" -> <<SetD("SetA", "a", ib \o ip)>>
                [] coloc = "lacks" -> <<SetD("SetA", "a", ib)>>
                [] coloc = "outer" -> <<SetD("SetA", "a", ip)>>
                [] OTHER -> <<>>
      items == CASE coloc = "inner" -> <<ItS(1)>> \o ir
                 [] coloc = "lacks" -> <<ItS(1)>> \o ip \o ir
                 [] coloc = "outer" -> <<ItS(1)>> \o ib \o ir
                 [] OTHER -> ib \o ip \o ir
      key == "B/" \o recv \o "/" \o bound \o "/" \o I \o "/" \o how \o "/i" \o ToString(nI) \o "c" \o ToString(nC) \o "/" \o coloc \o "/" \o mode
  IN Prog(key, "B", atoms, leaves, sets,
          <<Inj("Inject", IF how = "param" THEN <<Par("c0", bound)>> ELSE <<>>, "T9", FALSE, FALSE, items)>>)
\* the same program written with a dot-imported wire package (Build, Bind, NewSet, ... unqualified)
BDot(q) == [q EXCEPT !.key = q.key \o "/dotwire"] @@ [opts |-> [dotwire |-> TRUE]]
FamilyB(p) ==
  \/ \E recv \in {"value", "pointer"} : \E ptr \in BOOLEAN : \E ifc \in {"plain", "embed", "foreign"} :
       \E how \in {"func", "struct", "value", "param", "field"} : \E nI \in {1, 2} : \E nC \in {0, 1} :
         \E coloc \in {"same", "inner", "lacks", "outer"} : \E mode \in {"ok", "nobind", "self", "unrelated"} :
           /\ mode # "ok" => (coloc = "same" /\ nI = 1 /\ ifc = "plain")
           /\ how = "param" => coloc \in {"same", "lacks"}
           /\ \/ p = BProg(recv, ptr, ifc, how, nI, nC, coloc, mode)
              \/ how = "func" /\ nI = 1 /\ nC = 0 /\ coloc \in {"same", "inner"} /\ p = BDot(BProg(recv, ptr, ifc, how, nI, nC, coloc, mode))
  \/ \E recv \in {"value", "pointer"} : \E ptr \in BOOLEAN : \E ifc \in {"embedonly-ok", "embedonly-missing"} :
       p = BProg(recv, ptr, ifc, "func", 1, 0, "same", "ok")

(* ======================================================================== *)
(* Family S (struct and field providers).                                   *)
(* S1 { A T1; B *T2; c T3; D T4 (prevented); a T5 } - exported, pointer     *)
(* typed, unexported, prevented, and a field differing from A only in case. *)
(* (1) wire.Struct(new(S1), sel...) for every selection incl. "*", unknown, *)
(* prevented and wrong-case names; the injector asks for S1 or *S1.         *)
(* (2) wire.FieldsOf over S1 / *S1 provided by a function, a parameter or a *)
(* struct provider, for every non-empty subset of {A, B, c}, each consumed  *)
(* as value or (pointer parent only) as pointer to the field.               *)
(* ======================================================================== *)
SAtoms(tagD) == << Tok("T1"), Tok("T2"), Tok("T3"), Tok("T4"), Tok("T5"), Tok("T9"),
                   StructT("S1", "a", <<Fld("A", "T1"), Fld("B", "*T2"), Fld("c", "T3"), FldT("D", "T4", tagD), Fld("a", "T5")>>) >>
SProviders == << Func("P1", <<>>, "T1", FALSE, FALSE), Func("P2", <<>>, "*T2", FALSE, FALSE), Func("P3", <<>>, "T3", FALSE, FALSE),
                 Func("P4", <<>>, "T4", FALSE, FALSE), Func("P5", <<>>, "T5", FALSE, FALSE) >>
SFieldNo(n) == CASE n = "A" -> 1 [] n = "B" -> 2 [] n = "c" -> 3 [] n = "D" -> 4 [] n = "a" -> 5 [] OTHER -> 0
\* selection given as a sequence of names (or all = TRUE); only providers of selected valid fields are passed, so nothing is unused
SStructProg(sel, all, ptr, tagD, keyx) ==
  LET twin(n) == CASE n = "b" -> 2 [] n = "C" -> 3 [] n = "d" -> 4 [] OTHER -> SFieldNo(n)   \* a wrong-case name must not pick its twin
      used == IF all THEN (IF tagD \in {"pre", "pre2"} THEN {1, 2, 3, 5} ELSE {1, 2, 3, 4, 5})
              ELSE {twin(sel[i]) : i \in DOMAIN sel} \ {0}
      us   == SeqOfSet(used)
      leaves == <<StructL("St", "S1", sel, all)>> \o [i \in DOMAIN us |-> SProviders[us[i]]]
      key  == "S/struct/" \o keyx \o "/" \o (IF ptr THEN "ptr" ELSE "val") \o "/D=" \o tagD
  IN Prog(key, "S", SAtoms(tagD), leaves, <<>>,
          <<Inj("Inject", <<>>, IF ptr THEN "*S1" ELSE "S1", FALSE, FALSE, [i \in DOMAIN leaves |-> ItL(i)])>>)
SSelections ==
  {<<>>, <<"A">>, <<"B">>, <<"c">>, <<"a">>, <<"A", "B">>, <<"B", "A">>, <<"A", "c">>, <<"A", "a">>, <<"a", "A">>, <<"B", "c", "a">>,
   <<"A", "B", "c", "a">>, <<"D">>, <<"A", "D">>, <<"Z">>, <<"A", "Z">>, <<"b">>, <<"C">>, <<"d">>, <<"A", "A">>}
FamilySStruct(p) ==
  \E ptr \in BOOLEAN : \E tagD \in {"pre", "pre2", "foreign", "other"} :
    \/ \E sel \in SSelections : (tagD = "pre" \/ \E i \in DOMAIN sel : sel[i] = "D") /\ p = SStructProg(sel, FALSE, ptr, tagD, ConcatStr([i \in DOMAIN sel |-> sel[i] \o ","]))
    \/ p = SStructProg(<<>>, TRUE, ptr, tagD, "star")
    \/ tagD = "pre" /\ \E x \in {"Z", "D", "A"} : p = SStructProg(<<"*", x, "A", "B", "c", "a">>, FALSE, ptr, tagD, "star+" \o x)

\* FieldsOf: names = the listed fields; want[i] \in {"v","p"}: consumed by value / by pointer to the field
SFieldsProg(pptr, src, names, want) ==
  LET parent == IF pptr THEN "*S1" ELSE "S1"
      ftype(n) == CASE n = "A" -> "T1" [] n = "B" -> "*T2" [] OTHER -> "T3"
      ctype(i) == IF want[i] = "p" THEN Ptr(ftype(names[i])) ELSE ftype(names[i])
      cons == Func("Q", [i \in DOMAIN names |-> ctype(i)], "T9", FALSE, FALSE)
      psrc == CASE src = "func"   -> <<Func("PS", <<>>, parent, FALSE, FALSE)>>
                [] src = "struct" -> <<StructL("St", "S1", <<"B">>, FALSE), Func("P2", <<>>, "*T2", FALSE, FALSE)>>
                [] OTHER -> <<>>
      leaves == <<FieldsL("FO", parent, names), cons>> \o psrc
      key == "S/fields/" \o parent \o "/" \o src \o "/" \o ConcatStr([i \in DOMAIN names |-> names[i] \o want[i]])
  IN Prog(key, "S", SAtoms("pre"), leaves, <<>>,
          <<Inj("Inject", IF src = "param" THEN <<Par("s0", parent)>> ELSE <<>>, "T9", FALSE, FALSE, [i \in DOMAIN leaves |-> ItL(i)])>>)
FamilySFields(p) ==
  \E pptr \in BOOLEAN : \E src \in {"func", "param", "struct"} :
  \E names \in {<<"A">>, <<"B">>, <<"c">>, <<"A", "B">>, <<"c", "A">>, <<"A", "B", "c">>} :
  \E want \in [DOMAIN names -> {"v", "p"}] :
    /\ ~pptr => \A i \in DOMAIN want : want[i] = "v"
    /\ p = SFieldsProg(pptr, src, names, want)
\* near misses: unknown / prevented / wrong-case names, *F wanted from a value parent, an unused listed name
SFieldsBad(p) ==
  \/ \E n \in {"Z", "D", "b", "C"} : \E pptr \in BOOLEAN :
       p = [SFieldsProg(pptr, "func", <<"A">>, <<"v">>) EXCEPT !.key = "S/fieldsbad/" \o n \o (IF pptr THEN "/ptr" ELSE "/val"),
                                                                !.leaves[1].names = <<n>>]
  \/ p = [SFieldsProg(FALSE, "func", <<"A">>, <<"v">>) EXCEPT !.key = "S/fieldsbad/ptr-from-value", !.leaves[2].ins = <<"*T1">>]
  \* the consumer wants exactly the type of the prevented field D (T4): naming D must still be refused
  \/ \E pptr \in BOOLEAN : p = [SFieldsProg(pptr, "func", <<"A">>, <<"v">>) EXCEPT !.key = "S/fieldsbad/prevented-wanted" \o (IF pptr THEN "/ptr" ELSE "/val"),
                                                                                   !.leaves[1].names = <<"D">>, !.leaves[2].ins = <<"T4">>]
  \/ p = [SFieldsProg(TRUE, "func", <<"A">>, <<"v">>) EXCEPT !.key = "S/fieldsbad/unused-name", !.leaves[1].names = <<"A", "c">>]
\* the deprecated struct-literal form S1{}: every field, whatever its tag
SStructLit(ptr, complete) ==
  LET leaves == <<StructLitL("SL", "S1")>> \o (IF complete THEN SProviders ELSE SubSeq(SProviders, 1, 3) \o <<SProviders[5]>>)
  IN Prog("S/structlit/" \o (IF ptr THEN "ptr" ELSE "val") \o (IF complete THEN "/complete" ELSE "/no-provider-for-tagged-field"), "S", SAtoms("pre"), leaves, <<>>,
          <<Inj("Inject", <<>>, IF ptr THEN "*S1" ELSE "S1", FALSE, FALSE, [i \in DOMAIN leaves |-> ItL(i)])>>)
FamilyS(p) == FamilySStruct(p) \/ FamilySFields(p) \/ SFieldsBad(p) \/ \E ptr \in BOOLEAN, complete \in BOOLEAN : p = SStructLit(ptr, complete)

(* ======================================================================== *)
(* Family Q (signatures).  Result lists of length 0..maxlen whose first     *)
(* entry is the provided value and whose other entries range over           *)
(* {value, error, func(), named func type, other func type, alias of error, *)
(* error-like interface}: as a provider (direct, nested, in another         *)
(* package, or in an unused corner of a set) and as the injector's own      *)
(* result list against providers that need error / cleanup / both / none.   *)
(* Plus parameter lists and field selections with identical types.          *)
(* ======================================================================== *)
QKinds == {"value", "error", "cleanup", "namedfunc", "otherfunc", "erralias", "errlike"}
RECURSIVE QTails(_)
QTails(k) == IF k = 0 THEN {<<>>} ELSE {<<x>> \o s : x \in QKinds, s \in QTails(k - 1)}
QShapes(maxlen) == {<<>>} \cup UNION {{<<"value">> \o s : s \in QTails(k)} : k \in 0..(maxlen - 1)}
QName(shape) == IF shape = <<>> THEN "none" ELSE ConcatStr([i \in DOMAIN shape |-> SubSeq(<<"v", "e", "c", "n", "o", "a", "l">>,
                   CHOOSE j \in 1..7 : <<"value", "error", "cleanup", "namedfunc", "otherfunc", "erralias", "errlike">>[j] = shape[i],
                   CHOOSE j \in 1..7 : <<"value", "error", "cleanup", "namedfunc", "otherfunc", "erralias", "errlike">>[j] = shape[i])[1]])
\* an explicit result list is marked by res; <<>> (no results) is written as <<"none">> so that it is not "derived"
QRes(shape) == IF shape = <<>> THEN <<"none">> ELSE shape
QProvProg(shape, place) ==
  LET pp == IF place = "otherpkg" THEN "b" ELSE "a"
      tp == IF place = "otherpkg" THEN "b" ELSE "a"
      bad == [FuncIn("P1", pp, <<>>, "T1", FALSE, FALSE) EXCEPT !.res = QRes(shape)]
      p2  == FuncIn("P2", pp, <<>>, "T2", FALSE, FALSE)
      key == "Q/prov/" \o QName(shape) \o "/" \o place
  IN Prog(key, "Q", <<TokIn("T1", tp), TokIn("T2", tp)>>, <<bad, p2>>,
          CASE place = "direct" -> <<>>
            [] place = "unused" -> <<SetD("SetA", "a", <<ItL(1), ItL(2)>>)>>
            [] OTHER -> <<SetD("SetA", pp, <<ItL(1)>>)>>,
          <<Inj("Inject", <<>>, IF place = "unused" THEN "T2" ELSE "T1", TRUE, TRUE,
                IF place = "direct" THEN <<ItL(1)>> ELSE <<ItS(1)>>)>>)
QInjProg(shape, need) ==
  LET key == "Q/inj/" \o QName(shape) \o "/" \o need
  IN Prog(key, "Q", <<Tok("T1")>>, <<Func("P1", <<>>, "T1", FlCl(need), FlEr(need))>>, <<>>,
          <<[Inj("Inject", <<>>, "T1", FALSE, FALSE, <<ItL(1)>>) EXCEPT !.res = QRes(shape)]>>)
\* identical parameter / field types
QDupProg(v) ==
  LET atoms == <<Tok("T1"), Tok("T2"), StructT("S4", "a", <<Fld("X", "T2"), Fld("Y", "T2"), Fld("Z", "*T2")>>),
                 StructT("S5", "a", <<FldT("M", "T1", "pre"), Fld("X", "T2"), Fld("Y", "T2")>>),
                 StructT("S6", "a", <<Fld("X", "T2"), FldT("M", "T2", "pre"), Fld("Z", "*T2")>>)>>
      p2 == Func("P2", <<>>, "T2", FALSE, FALSE)   pp2 == Func("PP2", <<>>, "*T2", FALSE, FALSE)
      psl == [Func("PSl", <<>>, "[]T2", FALSE, FALSE) EXCEPT !.name = "PSl"]
      mk(leaves, out) == Prog("Q/dup/" \o v, "Q", atoms, leaves, <<>>, <<Inj("Inject", <<>>, out, FALSE, FALSE, [i \in DOMAIN leaves |-> ItL(i)])>>)
  IN CASE v = "func-same"      -> mk(<<Func("P1", <<"T2", "T2">>, "T1", FALSE, FALSE), p2>>, "T1")
       [] v = "func-ptr"       -> mk(<<Func("P1", <<"T2", "*T2">>, "T1", FALSE, FALSE), p2, pp2>>, "T1")
       [] v = "func-variadic"  -> mk(<<[Func("P1", <<"T2", "[]T2">>, "T1", FALSE, FALSE) EXCEPT !.va = TRUE], p2, psl>>, "T1")
       [] v = "func-var-same"  -> mk(<<[Func("P1", <<"[]T2", "[]T2">>, "T1", FALSE, FALSE) EXCEPT !.va = TRUE], psl>>, "T1")
       [] v = "struct-same"    -> mk(<<StructL("St", "S4", <<"X", "Y">>, FALSE), p2>>, "S4")
       [] v = "struct-ptr"     -> mk(<<StructL("St", "S4", <<"X", "Z">>, FALSE), p2, pp2>>, "S4")
       [] v = "struct-star"    -> mk(<<StructL("St", "S4", <<>>, TRUE), p2, pp2>>, "*S4")
       [] v = "struct-one"     -> mk(<<StructL("St", "S4", <<"Y">>, FALSE), p2>>, "*S4")
       [] v = "struct-star-dup-after-prevented" -> mk(<<StructL("St", "S5", <<>>, TRUE), p2>>, "S5")     \* {M prevented; X T2; Y T2}
       [] v = "struct-star-prevented-twin"      -> mk(<<StructL("St", "S6", <<>>, TRUE), p2, pp2>>, "S6") \* {X T2; M T2 prevented; Z *T2}: legal
FamilyQ(p, maxlen) ==
  \/ \E s \in QShapes(maxlen) : \E pl \in {"direct", "nested", "otherpkg", "unused"} : p = QProvProg(s, pl)
  \/ \E s \in QShapes(maxlen) : \E nd \in {"p", "e", "c", "b"} : p = QInjProg(s, nd)
  \/ \E v \in {"func-same", "func-ptr", "func-variadic", "func-var-same", "struct-same", "struct-ptr", "struct-star", "struct-one",
               "struct-star-dup-after-prevented", "struct-star-prevented-twin"} : p = QDupProg(v)

(* ======================================================================== *)
(* Family U (unused direct items).  Three accepted bases - a chain, an      *)
(* injector that returns its own argument, an injector that returns its     *)
(* argument through a binding - each extended by one superfluous direct     *)
(* item of every kind; and accepted programs whose direct items are used    *)
(* only indirectly.                                                         *)
(* ======================================================================== *)
UAtoms == << Tok("T1"), Tok("T2"), Tok("T5"), Tok("T6"), Tok("T9"), TokIn("T8", "b"),
             Iface("I1", "a", <<>>), Iface("I2", "a", <<>>),
             MkAtom("C", "tok", "a", <<>>, <<>>, <<Impl("I1", "pointer"), Impl("I2", "pointer")>>, ""),
             StructT("S1", "a", <<Fld("X", "T2")>>), StructT("S2", "a", <<Fld("F", "T5"), Fld("G", "T6")>>) >>
\* base: [leaves, params, out]
UBase(b) ==
  CASE b = "chain"   -> [leaves |-> <<Func("P1", <<"T2">>, "T1", FALSE, FALSE), Func("P2", <<>>, "T2", FALSE, FALSE)>>, params |-> <<>>, out |-> "T1"]
    [] b = "argout"  -> [leaves |-> <<>>, params |-> <<Par("x", "T1")>>, out |-> "T1"]
    [] b = "argbind" -> [leaves |-> <<BindL("B0", "I1", "*C")>>, params |-> <<Par("x", "*C")>>, out |-> "I1"]
    [] b = "bindused"-> [leaves |-> <<BindL("B0", "I1", "*C"), Func("PC", <<>>, "*C", FALSE, FALSE), Func("P1", <<"I1">>, "T1", FALSE, FALSE)>>, params |-> <<>>, out |-> "T1"]
\* extra: [leaves (appended), sets, items (direct items added; leaf indices relative to the extra leaves, sets by index)]
UExtra(x) ==
  CASE x = "func"     -> [leaves |-> <<Func("F9", <<>>, "T9", FALSE, FALSE)>>, sets |-> <<>>, direct |-> <<1>>, dsets |-> <<>>]
    [] x = "struct"   -> [leaves |-> <<StructL("St", "S1", <<>>, FALSE)>>, sets |-> <<>>, direct |-> <<1>>, dsets |-> <<>>]
    [] x = "value"    -> [leaves |-> <<ValueL("V9", "T9")>>, sets |-> <<>>, direct |-> <<1>>, dsets |-> <<>>]
    [] x = "ivalue"   -> [leaves |-> <<IValueL("IV", "I2", "*C")>>, sets |-> <<>>, direct |-> <<1>>, dsets |-> <<>>]
    [] x = "bind"     -> [leaves |-> <<BindL("B9", "I2", "*C")>>, sets |-> <<>>, direct |-> <<1>>, dsets |-> <<>>]
    [] x = "fields"   -> [leaves |-> <<FieldsL("FO", "S2", <<"F">>), Func("PS2", <<>>, "S2", FALSE, FALSE)>>, sets |-> <<>>, direct |-> <<1, 2>>, dsets |-> <<>>]
    [] x = "set"      -> [leaves |-> <<Func("F9", <<>>, "T9", FALSE, FALSE)>>, sets |-> <<"a">>, direct |-> <<>>, dsets |-> <<1>>]
    [] x = "setpkg"   -> [leaves |-> <<FuncIn("F8", "b", <<>>, "T8", FALSE, FALSE)>>, sets |-> <<"b">>, direct |-> <<>>, dsets |-> <<1>>]
    [] x = "emptyset" -> [leaves |-> <<>>, sets |-> <<"a">>, direct |-> <<>>, dsets |-> <<1>>]
    [] x = "none"     -> [leaves |-> <<>>, sets |-> <<>>, direct |-> <<>>, dsets |-> <<>>]
UProg(b, x) ==
  LET B == UBase(b)  X == UExtra(x)
      nb == Len(B.leaves)
      leaves == B.leaves \o X.leaves
      xs == [j \in DOMAIN X.leaves |-> ItL(nb + j)]
      sets == IF X.sets = <<>> THEN <<>> ELSE <<SetD("SetX", X.sets[1], xs)>>
      items == [j \in 1..nb |-> ItL(j)] \o [j \in DOMAIN X.direct |-> ItL(nb + X.direct[j])] \o [j \in DOMAIN X.dsets |-> ItS(X.dsets[j])]
  IN Prog("U/" \o b \o "/" \o x, "U", UAtoms, leaves, sets, <<Inj("Inject", B.params, B.out, FALSE, FALSE, items)>>)
\* items used only indirectly: all must be accepted
UIndirect(v) ==
  LET mk(leaves, sets, items, out) == Prog("U/indirect/" \o v, "U", UAtoms, leaves, sets, <<Inj("Inject", <<>>, out, FALSE, FALSE, items)>>)
      p1 == Func("P1", <<"T2">>, "T1", FALSE, FALSE)  p2 == Func("P2", <<>>, "T2", FALSE, FALSE)
  IN CASE v = "nested2"  -> mk(<<p1, p2>>, <<SetD("SetB", "a", <<ItL(2)>>), SetD("SetA", "a", <<ItS(1)>>)>>, <<ItS(2), ItL(1)>>, "T1")
       [] v = "struct-ptr-only" -> mk(<<StructL("St", "S1", <<"X">>, FALSE), p2, Func("Q", <<"*S1">>, "T1", FALSE, FALSE)>>, <<>>, <<ItL(1), ItL(2), ItL(3)>>, "T1")
       [] v = "struct-val-only" -> mk(<<StructL("St", "S1", <<"X">>, FALSE), p2, Func("Q", <<"S1">>, "T1", FALSE, FALSE)>>, <<>>, <<ItL(1), ItL(2), ItL(3)>>, "T1")
       [] v = "fieldptr-only"   -> mk(<<FieldsL("FO", "*S2", <<"F">>), Func("PS2", <<>>, "*S2", FALSE, FALSE), Func("Q", <<"*T5">>, "T1", FALSE, FALSE)>>, <<>>, <<ItL(1), ItL(2), ItL(3)>>, "T1")
       [] v = "bind-only"       -> mk(<<BindL("B0", "I1", "*C"), Func("PC", <<>>, "*C", FALSE, FALSE), Func("Q", <<"I1">>, "T1", FALSE, FALSE)>>, <<>>, <<ItL(1), ItL(2), ItL(3)>>, "T1")
       [] v = "set-one-of-many" -> mk(<<p2, Func("F9", <<>>, "T9", FALSE, FALSE), Func("F5", <<>>, "T5", FALSE, FALSE), p1>>, <<SetD("SetA", "a", <<ItL(1), ItL(2), ItL(3)>>)>>, <<ItS(1), ItL(4)>>, "T1")
       [] v = "fields-partial"  -> mk(<<FieldsL("FO", "S2", <<"F", "G">>), Func("PS2", <<>>, "S2", FALSE, FALSE), Func("Q", <<"T5">>, "T1", FALSE, FALSE)>>, <<>>, <<ItL(1), ItL(2), ItL(3)>>, "T1")
       [] v = "two-binds-one-conc" -> mk(<<BindL("B0", "I1", "*C"), BindL("B9", "I2", "*C"), Func("PC", <<>>, "*C", FALSE, FALSE), Func("Q", <<"I1", "I2">>, "T1", FALSE, FALSE)>>, <<>>, <<ItL(1), ItL(2), ItL(3), ItL(4)>>, "T1")
FamilyU(p) ==
  \/ \E b \in {"chain", "argout", "argbind", "bindused"} :
       \E x \in {"none", "func", "struct", "value", "ivalue", "bind", "fields", "set", "setpkg", "emptyset"} :
         /\ (x = "bind" => b \in {"argbind", "bindused"})       \* a second binding to the same concrete type
         /\ (x = "ivalue" => b \in {"argbind", "bindused"})
         /\ (x = "struct" => b = "chain")
         /\ p = UProg(b, x)
  \/ \E v \in {"nested2", "struct-ptr-only", "struct-val-only", "fieldptr-only", "bind-only", "set-one-of-many", "fields-partial", "two-binds-one-conc"} : p = UIndirect(v)

(* ======================================================================== *)
(* Family M (regrouping and reordering).  A well-formed base program; every *)
(* variant places each leaf directly in wire.Build or in SetA / SetB / SetC *)
(* (SetC nested in SetA; SetB and SetC in the injector's package or in      *)
(* another one), keeps each binding next to the provider of its concrete    *)
(* type, and lists the direct items in one of several orders.               *)
(* All types and provider functions live in package "c".                    *)
(* ======================================================================== *)
MAtoms == << TokIn("T1", "c"), TokIn("T2", "c"), TokIn("T3", "c"), TokIn("T5", "c"), TokIn("T6", "c"), TokIn("T7", "c"),
             Iface("I1", "c", <<>>), MkAtom("C", "tok", "c", <<>>, <<>>, <<Impl("I1", "pointer")>>, ""),
             StructT("S1", "c", <<Fld("X", "T2"), Fld("Y", "T3")>>), StructT("S2", "c", <<Fld("F", "T5"), Fld("G", "T6")>>) >>
MF(name, ins, out) == FuncIn(name, "c", ins, out, FALSE, FALSE)
\* [leaves, out, bindOf: leaf index of a binding -> leaf index of the provider of its concrete type (0 = none)]
MBase(b) ==
  CASE b = 1 -> [leaves |-> <<MF("P1", <<"T2", "T3">>, "T1"), MF("P2", <<"T3">>, "T2"), MF("P3", <<>>, "T3")>>, out |-> "T1", tie |-> <<>>]
    [] b = 2 -> [leaves |-> <<MF("Top", <<"I1", "*S1">>, "T1"), BindL("B", "I1", "*C"), MF("PC", <<"T3">>, "*C"),
                             StructL("St", "S1", <<>>, TRUE), MF("P2", <<>>, "T2"), MF("P3", <<>>, "T3")>>, out |-> "T1", tie |-> <<<<2, 3>>>>]
    [] b = 3 -> [leaves |-> <<MF("Q", <<"T5", "*T6", "T7">>, "T1"), FieldsL("FO", "*S2", <<"F", "G">>), MF("PS2", <<>>, "*S2"), ValueL("V7", "T7")>>,
                 out |-> "T1", tie |-> <<>>]
Perm(s, how) ==
  CASE how = "id"  -> s
    [] how = "rev" -> [i \in DOMAIN s |-> s[Len(s) + 1 - i]]
    [] how = "rot" -> IF s = <<>> THEN s ELSE Tail(s) \o <<Head(s)>>
MProg(b, g, how, pb, pc) ==
  LET B == MBase(b)
      n == Len(B.leaves)
      inA == SeqOfSet({i \in 1..n : g[i] = "A"})  inB == SeqOfSet({i \in 1..n : g[i] = "B"})
      inC == SeqOfSet({i \in 1..n : g[i] = "C"})  inD == SeqOfSet({i \in 1..n : g[i] = "d"})
      hasC == inC # <<>>   hasA == inA # <<>> \/ hasC   hasB == inB # <<>>
      \* set indices: C = 1 (if any), A next, B next
      iC == 1  iA == IF hasC THEN 2 ELSE 1  iB == (IF hasC THEN 1 ELSE 0) + (IF hasA THEN 1 ELSE 0) + 1
      sets == (IF hasC THEN <<SetD("SetC", pc, Perm(Items(inC), how))>> ELSE <<>>)
              \o (IF hasA THEN <<SetD("SetA", "a", Perm(Items(inA) \o (IF hasC THEN <<ItS(iC)>> ELSE <<>>), how))>> ELSE <<>>)
              \o (IF hasB THEN <<SetD("SetB", pb, Perm(Items(inB), how))>> ELSE <<>>)
      items == Perm(Items(inD) \o (IF hasA THEN <<ItS(iA)>> ELSE <<>>) \o (IF hasB THEN <<ItS(iB)>> ELSE <<>>), how)
      key == "M/b" \o ToString(b) \o "/" \o ConcatStr(g) \o "/" \o how \o "/" \o pb \o pc
  IN [Prog(key, "M", MAtoms, B.leaves, sets, <<Inj("Inject", <<>>, B.out, FALSE, FALSE, items)>>) EXCEPT !.fam = "M"]
FamilyM(p, bases) ==
  \E b \in bases : \E g \in [1..Len(MBase(b).leaves) -> {"d", "A", "B", "C"}] :
    /\ \A i \in DOMAIN MBase(b).tie : g[MBase(b).tie[i][1]] = g[MBase(b).tie[i][2]]
    /\ \E how \in {"id", "rev", "rot"} : \E pb \in {"a", "b"} : \E pc \in {"a", "b"} :
         /\ (\A i \in DOMAIN g : g[i] # "B") => pb = "a"
         /\ (\A i \in DOMAIN g : g[i] # "C") => pc = "a"
         /\ p = MProg(b, g, how, pb, pc)

(* ======================================================================== *)
(* Family T (type kinds).  The provided / result type T1 is a named type or *)
(* an alias of every kind of Go type; one provider that can fail (so the    *)
(* error path needs a zero value of that kind), optionally with a cleanup;  *)
(* fault schedules as in family R.  Also long chains of cleanup providers   *)
(* (more than ten generated cleanup names).                                 *)
(* ======================================================================== *)
TKinds == {"bool", "int", "float64", "complex128", "string", "uintptr", "[2]int", "struct{ A int }", "*int", "[]int",
           "map[string]int", "chan int", "func() int", "interface{}", "error", "[]T2", "map[T2]*T2", "*T2", "T2", "unsafe.Pointer"}
TProg(kind, alias, fl, va) ==
  LET key == "T/" \o kind \o "/" \o (IF alias THEN "alias" ELSE "named") \o "/" \o fl \o (IF va THEN "/variadic" ELSE "")
  IN [Prog(key, "R", <<MkAtom("T1", "named", "a", <<>>, <<>>, <<>>, (IF alias THEN "=" ELSE "") \o kind), Tok("T2"), Tok("T3")>>,
           <<Func("P1", <<"T3">>, "T1", FlCl(fl), FlEr(fl)), Func("P3", <<>>, "T3", TRUE, FALSE)>>, <<>>,
           <<[Inj("Inject", IF va THEN <<Par("xs", "[]T2")>> ELSE <<>>, "T1", TRUE, TRUE, <<ItL(1), ItL(2)>>) EXCEPT !.va = va]>>) EXCEPT !.fam = "R"]
FamilyT(p) == \E k \in TKinds : \E al \in BOOLEAN : \E fl \in {"e", "b"} : \E va \in BOOLEAN :
                 (va => fl = "e" /\ ~al) /\ p = TProg(k, al, fl, va)
\* a chain P1 <- P2 <- ... <- Pn of cleanup(+error) providers
ChainProg(n, fl) ==
  [Prog("R/chain/n" \o ToString(n) \o "/" \o fl, "R", [i \in 1..n |-> Tok(TN(i))],
        [i \in 1..n |-> Func(PN(i), IF i < n THEN <<TN(i + 1)>> ELSE <<>>, TN(i), FlCl(fl), FlEr(fl) /\ (i = 1 \/ i = n \/ i = n \div 2))], <<>>,
        <<Inj("Inject", <<>>, TN(1), TRUE, TRUE, [i \in 1..n |-> ItL(i)])>>) EXCEPT !.fam = "R"]
FamilyChain(p, ns) == \E n \in ns : \E fl \in {"c", "b"} : p = ChainProg(n, fl)

(* ======================================================================== *)
(* Family G, split: the providers of a digraph are distributed over SetA    *)
(* and SetB; SetAll = NewSet(SetA, SetB) has no provider of its own; the    *)
(* injector uses SetAll.  (A cycle may exist only in the union.)            *)
(* Lattices: d layers of two providers, each depending on both providers of *)
(* the next layer (2^d paths), optionally closed by a back edge.            *)
(* ======================================================================== *)
GSplitProg(n, E, part) ==
  LET succ(i) == SeqOfSet({j \in 1..n : <<i, j>> \in E})
      leaves  == [i \in 1..n |-> Func(PN(i), [x \in DOMAIN succ(i) |-> TN(succ(i)[x])], TN(i), FALSE, FALSE)]
      inA == SeqOfSet({i \in 1..n : part[i] = "A"})  inB == SeqOfSet({i \in 1..n : part[i] = "B"})
      key == "G/split/n" \o ToString(n) \o "/e" \o ToString(EdgeCode(n, E)) \o "/" \o ConcatStr(part)
  IN Prog(key, "G", [i \in 1..n |-> Tok(TN(i))], leaves,
          <<SetD("SetA", "a", Items(inA)), SetD("SetB", "a", Items(inB)), SetD("SetAll", "a", <<ItS(1), ItS(2)>>)>>,
          <<Inj("Inject", <<>>, TN(1), FALSE, FALSE, <<ItS(3)>>)>>)
\* random digraphs on n providers (n = 5, 6: beyond exhaustive reach): k random edge sets of about m edges (TLC -seed decides)
FamilyGRand(p, n, k, m) ==
  \E E \in RandomSetOfSubsets(k, m, (1..n) \X (1..n)) : p = GProg(n, E, [i \in 1..n |-> "f"], "set")
\* lassos: a path of d providers leading into a cycle of c providers (or, when ~back, into a chain), where one provider x
\* additionally takes a leaf type T9 before ("first") or after ("last") the parameter that continues the path
LassoProg(d, c, x, leafpos, back) ==
  LET n == d + c
      succ(i) == IF i < n THEN <<TN(i + 1)>> ELSE IF back THEN <<TN(d + 1)>> ELSE <<>>
      ins(i) == IF i = x THEN (IF leafpos = "first" THEN <<"T9">> \o succ(i) ELSE succ(i) \o <<"T9">>) ELSE succ(i)
      leaves == [i \in 1..n |-> Func(PN(i), ins(i), TN(i), FALSE, FALSE)] \o <<Func("P9", <<>>, "T9", FALSE, FALSE)>>
      key == "G/lasso/d" \o ToString(d) \o "c" \o ToString(c) \o "/x" \o ToString(x) \o leafpos \o (IF back THEN "/cyclic" ELSE "/chain")
  IN Prog(key, "G", [i \in 1..n |-> Tok(TN(i))] \o <<Tok("T9")>>, leaves,
          <<SetD("SetA", "a", [k \in 1..(n + 1) |-> ItL(k)])>>, <<Inj("Inject", <<>>, "T1", FALSE, FALSE, <<ItS(1)>>)>>)
FamilyLasso(p) ==
  \E d \in 0..3 : \E c \in 1..3 : \E x \in 0..(d + c) : \E lp \in {"first", "last"} : \E back \in BOOLEAN :
    (x = 0 => lp = "first") /\ p = LassoProg(d, c, x, lp, back)
\* the same sets, but no injector uses them: only `wire check` / `wire show` look at them
GSplitUnused(n, E, part) ==
  LET q == GSplitProg(n, E, part)
      k == Len(q.leaves) + 1
  IN [q EXCEPT !.key = "G/splitunused/n" \o ToString(n) \o "/e" \o ToString(EdgeCode(n, E)) \o "/" \o ConcatStr(part),
               !.atoms = q.atoms \o <<Tok("T0")>>,
               !.leaves = q.leaves \o <<Func("P0", <<>>, "T0", FALSE, FALSE)>>,
               !.injs = <<Inj("Inject", <<>>, "T0", FALSE, FALSE, <<ItL(k)>>)>>]
FamilyGSplit(p, n) ==
  \E E \in SUBSET ((1..n) \X (1..n)) : \E part \in [1..n -> {"A", "B"}] :
    /\ part[1] = "A" /\ \E i \in 1..n : part[i] = "B"
    /\ (p = GSplitProg(n, E, part) \/ p = GSplitUnused(n, E, part))
LatticeProg(d, back) ==
  LET n == 2 * d
      layer(k) == (k + 1) \div 2
      ins(k) == IF layer(k) < d THEN <<TN(2 * layer(k) + 1), TN(2 * layer(k) + 2)>>
                ELSE IF back /\ k = n THEN <<TN(1)>> ELSE <<>>
      leaves == [k \in 1..n |-> Func(PN(k), ins(k), TN(k), FALSE, FALSE)]
  IN Prog("G/lattice/d" \o ToString(d) \o (IF back THEN "/back" ELSE "/dag"), "G", [k \in 1..n |-> Tok(TN(k))], leaves,
          <<SetD("SetA", "a", [k \in 1..n |-> ItL(k)])>>, <<Inj("Inject", <<>>, TN(1), FALSE, FALSE, <<ItS(1)>>)>>)
FamilyLattice(p, ds) == \E d \in ds : \E back \in BOOLEAN : p = LatticeProg(d, back)

(* ======================================================================== *)
(* Family X: shapes that need several injectors, several injector files,    *)
(* several sets sharing an import, multi-name var specs, or several         *)
(* parameters - one program per named variant.                              *)
(* ======================================================================== *)
XAtoms == << Tok("T1"), Tok("T2"), Tok("T3"), Tok("T8"), Tok("T9"),
             Iface("I1", "a", <<>>), Iface("I2", "a", <<"I1">>),
             MkAtom("C", "tok", "a", <<>>, <<>>, <<Impl("I1", "pointer"), Impl("I2", "pointer")>>, ""),
             MkAtom("C1", "tok", "a", <<>>, <<>>, <<Impl("I1", "pointer")>>, ""),
             MkAtom("CV", "tok", "a", <<>>, <<>>, <<Impl("I1", "value")>>, ""),
             StructT("S1", "a", <<Fld("A", "T1"), FldT("D", "T8", "foreign"), FldT("E", "T3", "other")>>),
             TokIn("U1", "b"), TokIn("U2", "b"), StructT("S9", "b", <<Fld("A", "U1"), Fld("c", "U2")>>), TokIn("V1", "c"),
             StructT("S2", "a", <<Fld("F", "T2"), Fld("G", "T3")>>),
             \* embedded fields: the field name is the type's name
             StructT("S3", "a", <<FldT("T2", "T2", "embed"), FldT("T3", "*T3", "embed"), Fld("H", "T8")>>),
             StructT("S4", "a", <<Fld("K", "*C"), Fld("L", "T2")>>),
             MkAtom("Z", "tok", "a", <<>>, <<>>, <<Impl("I1", "value")>>, "") >>
XF(name, ins, out) == Func(name, ins, out, FALSE, FALSE)
XInj(name, params, out, items, file) == [Inj(name, params, out, FALSE, FALSE, items) EXCEPT !.file = file]
XProg(v) ==
  LET mk(leaves, sets, injs) == Prog("X/" \o v, "X", XAtoms, leaves, sets, injs) IN
  CASE v = "star-foreign-tag-missing" ->    \* "*" must fill the field with the foreign tag: its type has no provider
         mk(<<StructL("St", "S1", <<>>, TRUE), XF("P1", <<>>, "T1"), XF("P3", <<>>, "T3")>>, <<>>,
            <<XInj("Inject", <<>>, "*S1", <<ItL(1), ItL(2), ItL(3)>>, 1)>>)
    [] v = "star-foreign-tag-ok" ->
         mk(<<StructL("St", "S1", <<>>, TRUE), XF("P1", <<>>, "T1"), XF("P3", <<>>, "T3"), XF("P8", <<>>, "T8")>>, <<>>,
            <<XInj("Inject", <<>>, "*S1", <<ItL(1), ItL(2), ItL(3), ItL(4)>>, 1)>>)
    [] v = "two-files-first-missing" ->
         mk(<<XF("P1", <<"T2">>, "T1"), XF("P3", <<>>, "T3")>>, <<>>,
            <<XInj("InjectA", <<>>, "T1", <<ItL(1)>>, 1), XInj("InjectB", <<>>, "T3", <<ItL(2)>>, 2)>>)
    [] v = "two-files-second-missing" ->
         mk(<<XF("P1", <<"T2">>, "T1"), XF("P3", <<>>, "T3")>>, <<>>,
            <<XInj("InjectA", <<>>, "T3", <<ItL(2)>>, 1), XInj("InjectB", <<>>, "T1", <<ItL(1)>>, 2)>>)
    [] v = "two-files-ok" ->                     \* (every injector file also carries a non-injector declaration: opts.filedecl)
         mk(<<XF("P1", <<"T3">>, "T1"), XF("P3", <<>>, "T3")>>, <<>>,
            <<XInj("InjectA", <<>>, "T1", <<ItL(1), ItL(2)>>, 1), XInj("InjectB", <<>>, "T3", <<ItL(2)>>, 2), XInj("InjectC", <<>>, "T1", <<ItL(1), ItL(2)>>, 2)>>)
         @@ [opts |-> [filedecl |-> TRUE]]
    [] v = "missing-behind-bind" ->           \* the bound type has a provider, one of its inputs has none
         mk(<<BindL("B", "I1", "*C"), XF("PC", <<"T8">>, "*C"), XF("Q", <<"I1">>, "T9")>>, <<>>,
            <<XInj("Inject", <<>>, "T9", <<ItL(1), ItL(2), ItL(3)>>, 1)>>)
    [] v = "missing-behind-bind-2" ->
         mk(<<BindL("B", "I1", "*C"), XF("PC", <<"T2">>, "*C"), XF("P2", <<"T8">>, "T2"), XF("Q", <<"I1", "T3">>, "T9"), XF("P3", <<>>, "T3")>>, <<>>,
            <<XInj("Inject", <<>>, "T9", <<ItL(1), ItL(2), ItL(3), ItL(4), ItL(5)>>, 1)>>)
    [] v = "bind-iface-not-implementing" ->   \* I1 does not have I2's method
         mk(<<BindL("B", "I2", "I1"), XF("PI", <<>>, "I1"), XF("Q", <<"I2">>, "T9")>>, <<>>,
            <<XInj("Inject", <<>>, "T9", <<ItL(1), ItL(2), ItL(3)>>, 1)>>)
    [] v = "arg-returned-through-bind" ->     \* no provider call at all; the bound argument is the second one
         mk(<<BindL("B", "I1", "*C")>>, <<>>,
            <<XInj("Inject", <<Par("p1", "*C1"), Par("p2", "*C")>>, "I1", <<ItL(1)>>, 1)>>)
    [] v = "arg-returned-directly" ->
         mk(<<>>, <<>>, <<XInj("Inject", <<Par("p1", "*C1"), Par("p2", "*C"), Par("p3", "T1")>>, "*C", <<>>, 1)>>)
    [] v = "shared-import-bind-lacks-concrete" ->  \* Full and Broken share their first import; Broken binds a type only Full provides
         mk(<<XF("P2", <<>>, "T2"), XF("PC", <<"T2">>, "*C"), BindL("B", "I1", "*C"), XF("Q", <<"I1">>, "T9"), XF("QC", <<"*C">>, "T1")>>,
            <<SetD("Base", "a", <<ItL(1)>>), SetD("Full", "a", <<ItS(1), ItL(2)>>), SetD("Broken", "a", <<ItS(1), ItL(3)>>)>>,
            <<XInj("InjectA", <<>>, "T1", <<ItS(2), ItL(5)>>, 1), XInj("InjectB", <<>>, "T9", <<ItS(3), ItL(4)>>, 1)>>)
    [] v = "multi-name-var-sets" ->            \* var ProdSet, TestSet = NewSet(..), NewSet(..): each name its own initialiser
         mk(<<XF("PProd", <<>>, "T2"), XF("PTest", <<>>, "T2"), XF("P1", <<"T2">>, "T1")>>,
            <<[SetD("ProdSet", "a", <<ItL(1)>>) EXCEPT !.grp = "g"], [SetD("TestSet", "a", <<ItL(2)>>) EXCEPT !.grp = "g"]>>,
            <<XInj("InjectProd", <<>>, "T1", <<ItS(1), ItL(3)>>, 1), XInj("InjectTest", <<>>, "T1", <<ItS(2), ItL(3)>>, 1)>>)
    [] v \in {"foreign-struct-star", "foreign-struct-unexported-name", "foreign-struct-exported-name"} ->   \* a struct of another package with an unexported field
         mk(<<StructL("St", "S9", IF v = "foreign-struct-star" THEN <<>> ELSE IF v = "foreign-struct-unexported-name" THEN <<"A", "c">> ELSE <<"A">>, v = "foreign-struct-star"),
              FuncIn("PU1", "b", <<>>, "U1", FALSE, FALSE)>> \o (IF v = "foreign-struct-exported-name" THEN <<>> ELSE <<FuncIn("PU2", "b", <<>>, "U2", FALSE, FALSE)>>), <<>>,
            <<XInj("Inject", <<>>, "S9", IF v = "foreign-struct-exported-name" THEN <<ItL(1), ItL(2)>> ELSE <<ItL(1), ItL(2), ItL(3)>>, 1)>>)
    [] v = "variadic-err-provider" ->          \* a variadic provider that can fail, followed by another provider that can fail
         [mk(<<[Func("PV", <<"T2", "[]T3">>, "T1", TRUE, TRUE) EXCEPT !.va = TRUE], Func("P2", <<>>, "T2", TRUE, FALSE),
               Func("PS", <<>>, "[]T3", FALSE, FALSE), Func("P9", <<"T1">>, "T9", TRUE, TRUE)>>, <<>>,
             <<[XInj("Inject", <<>>, "T9", <<ItL(1), ItL(2), ItL(3), ItL(4)>>, 1) EXCEPT !.cl = TRUE, !.er = TRUE]>>) EXCEPT !.fam = "R"]
    [] v = "same-named-sets-two-packages" ->    \* var Set in the injector package includes var Set of another package
         mk(<<FuncIn("PU1", "b", <<>>, "U1", FALSE, FALSE), XF("P1", <<"U1">>, "T1")>>,
            <<SetD("Set", "b", <<ItL(1)>>), SetD("Set", "a", <<ItS(1), ItL(2)>>), SetD("Other", "a", <<ItS(1)>>)>>,
            <<XInj("Inject", <<>>, "T1", <<ItS(2)>>, 1)>>)
    [] v = "two-unnamed-values" ->              \* two values of unnamed types in one injector: both helper variables derive the same base name
         mk(<<ValueL("V1", "[]T2"), ValueL("V2", "[]T3"), ValueL("V3", "*T8"), XF("Q", <<"[]T2", "[]T3", "*T8">>, "T1")>>, <<>>,
            <<XInj("Inject", <<>>, "T1", <<ItL(1), ItL(2), ItL(3), ItL(4)>>, 1), XInj("InjectB", <<>>, "T1", <<ItL(4), ItL(3), ItL(2), ItL(1)>>, 1)>>)
    [] v = "same-name-packages" ->              \* two packages with one package name, each with a set Set and a provider New
         mk(<<FuncIn("NewB", "b", <<>>, "U1", FALSE, FALSE), FuncIn("NewC", "c", <<>>, "V1", FALSE, FALSE), XF("P1", <<"U1", "V1">>, "T1")>>,
            <<SetD("SetB", "b", <<ItL(1)>>), SetD("SetC", "c", <<ItL(2)>>)>>,
            <<XInj("Inject", <<>>, "T1", <<ItS(1), ItS(2), ItL(3)>>, 1)>>)
         @@ [naming |-> [x \in {"pkg:b", "pkg:c", "alias:b", "alias:c", "NewB", "NewC", "SetB", "SetC"} |->
                          CASE x \in {"pkg:b", "pkg:c"} -> "store" [] x = "alias:b" -> "bstore" [] x = "alias:c" -> "cstore"
                            [] x \in {"NewB", "NewC"} -> "New" [] OTHER -> "Set"]]
    [] v = "two-fieldsof-items" ->              \* two separate wire.FieldsOf items in one call
         mk(<<FieldsL("FO1", "S2", <<"F">>), FieldsL("FO2", "S2", <<"G">>), XF("PS2", <<>>, "S2"), XF("Q", <<"T2", "T3">>, "T1")>>, <<>>,
            <<XInj("Inject", <<>>, "T1", <<ItL(1), ItL(2), ItL(3), ItL(4)>>, 1), XInj("InjectRev", <<>>, "T1", <<ItL(4), ItL(3), ItL(2), ItL(1)>>, 1)>>)
    [] v = "bind-after-concrete" ->             \* the concrete type is resolved before the interfaces bound to it
         mk(<<XF("Top", <<"*C", "I1", "I2">>, "T1"), BindL("B1", "I1", "*C"), BindL("B2", "I2", "*C"), XF("PC", <<>>, "*C")>>, <<>>,
            <<XInj("Inject", <<>>, "T1", <<ItL(1), ItL(2), ItL(3), ItL(4)>>, 1), XInj("InjectRev", <<>>, "T1", <<ItL(4), ItL(3), ItL(2), ItL(1)>>, 1)>>)
    [] v = "iface-result-bound-to-value-struct" ->   \* the injector returns an interface bound to a non-pointer struct; its provider can fail
         [mk(<<BindL("B", "I1", "CV"), Func("PCV", <<"T2">>, "CV", TRUE, TRUE), Func("P2", <<>>, "T2", TRUE, FALSE)>>, <<>>,
             <<[XInj("Inject", <<>>, "I1", <<ItL(1), ItL(2), ItL(3)>>, 1) EXCEPT !.cl = TRUE, !.er = TRUE]>>) EXCEPT !.fam = "R"]
    [] v = "alias-satisfies" ->                  \* a provider whose result is written through a type alias provides the aliased type
         mk(<<[XF("P2", <<>>, "T2") EXCEPT !.alias = TRUE], XF("P1", <<"T2">>, "T1")>>, <<>>,
            <<XInj("Inject", <<>>, "T1", <<ItL(1), ItL(2)>>, 1)>>)
    [] v = "defined-type-does-not-satisfy" ->    \* type N2 T2 is a different type: it does not provide T2
         [mk(<<XF("PN2", <<>>, "N2"), XF("P1", <<"T2">>, "T1")>>, <<>>,
             <<XInj("Inject", <<>>, "T1", <<ItL(2), ItL(1)>>, 1)>>) EXCEPT !.atoms = XAtoms \o <<MkAtom("N2", "named", "a", <<>>, <<>>, <<>>, "T2")>>]
    [] v = "pointer-does-not-satisfy-value" ->   \* *T2 provided, T2 needed (and the other way round in the second injector)
         mk(<<XF("PP2", <<>>, "*T2"), XF("P1", <<"T2">>, "T1"), XF("P3", <<>>, "T3"), XF("P9", <<"*T3">>, "T9")>>, <<>>,
            <<XInj("Inject", <<>>, "T1", <<ItL(1), ItL(2)>>, 1)>>)
    [] v = "value-does-not-satisfy-pointer" ->
         mk(<<XF("P3", <<>>, "T3"), XF("P9", <<"*T3">>, "T9")>>, <<>>,
            <<XInj("Inject", <<>>, "T9", <<ItL(1), ItL(2)>>, 1)>>)
    [] v = "multi-name-var-sets-missing" ->     \* the second name of a multi-name var spec lacks what the first provides
         mk(<<XF("P2", <<>>, "T2"), XF("P3", <<>>, "T3"), XF("P1", <<"T2", "T3">>, "T1")>>,
            <<[SetD("SetA", "a", <<ItL(1)>>) EXCEPT !.grp = "g"], [SetD("SetB", "a", <<ItL(2)>>) EXCEPT !.grp = "g"]>>,
            <<XInj("Inject", <<>>, "T1", <<ItS(2), ItL(3)>>, 1)>>)
    [] v = "two-fieldsof-second-unused" ->      \* two FieldsOf items, the second contributes nothing
         mk(<<FieldsL("FO1", "S2", <<"F">>), FieldsL("FO2", "S2", <<"G">>), XF("PS2", <<>>, "S2"), XF("Q", <<"T2">>, "T1")>>, <<>>,
            <<XInj("Inject", <<>>, "T1", <<ItL(1), ItL(2), ItL(3), ItL(4)>>, 1)>>)
    [] v = "missing-under-fieldsof-parent" ->   \* the parent struct of a needed field cannot be built: one of its inputs has no provider
         mk(<<FieldsL("FO1", "S2", <<"F">>), XF("PS2", <<"T8">>, "S2"), XF("Q", <<"T2">>, "T1")>>, <<>>,
            <<XInj("Inject", <<>>, "T1", <<ItL(1), ItL(2), ItL(3)>>, 1)>>)
    [] v = "set-used-by-first-injector-only" -> \* a named set genuinely used by one injector is superfluous in the next one
         mk(<<XF("P2", <<>>, "T2"), XF("P1", <<"T2">>, "T1"), XF("P3", <<>>, "T3")>>, <<SetD("SetA", "a", <<ItL(1)>>)>>,
            <<XInj("InjectA", <<>>, "T1", <<ItS(1), ItL(2)>>, 1), XInj("InjectB", <<>>, "T3", <<ItS(1), ItL(3)>>, 1)>>)
    [] v = "struct-fields-from-params-crossed" -> \* struct fields fed by injector parameters whose positions differ from the fields'
         mk(<<StructL("St", "S2", <<"F", "G">>, FALSE)>>, <<>>,
            <<XInj("Inject", <<Par("g", "T3"), Par("unrelated", "T9"), Par("f", "T2")>>, "S2", <<ItL(1)>>, 1),
              XInj("InjectP", <<Par("f", "T2"), Par("g", "T3")>>, "*S2", <<ItL(1)>>, 1)>>)
    [] v \in {"inaccessible-value", "inaccessible-value-full-sig"} ->   \* a value expression of another package that mentions an unexported identifier
         mk(<<[ValueL("VH", "U1") EXCEPT !.inacc = TRUE], XF("P1", <<"U1">>, "T1")>>, <<SetD("SetB", "b", <<ItL(1)>>)>>,
            <<[XInj("Inject", <<>>, "T1", <<ItS(1), ItL(2)>>, 1) EXCEPT !.cl = (v = "inaccessible-value-full-sig"), !.er = (v = "inaccessible-value-full-sig")]>>)
    [] v = "foreign-struct-star-full-sig" ->
         mk(<<StructL("St", "S9", <<>>, TRUE), FuncIn("PU1", "b", <<>>, "U1", FALSE, FALSE), FuncIn("PU2", "b", <<>>, "U2", FALSE, FALSE)>>, <<>>,
            <<[XInj("Inject", <<>>, "S9", <<ItL(1), ItL(2), ItL(3)>>, 1) EXCEPT !.cl = TRUE, !.er = TRUE]>>)
    [] v = "unnamed-params-same-type-name" ->   \* unnamed / blank parameters whose types have one name in two packages
         mk(<<XF("P1", <<"T2", "*U1", "T3">>, "T1")>>, <<>>,
            <<XInj("Inject", <<Par("", "T2"), Par("", "*U1"), Par("", "T3")>>, "T1", <<ItL(1)>>, 1),
              XInj("InjectBlank", <<Par("_", "T2"), Par("_", "*U1"), Par("_", "T3")>>, "T1", <<ItL(1)>>, 1)>>)
         @@ [naming |-> [x \in {"T2", "U1", "T3"} |-> IF x = "T3" THEN "Err" ELSE "Config"]]
    [] v = "set-through-plain-alias-package" ->  \* package c re-exports b's set under another name and does not import wire itself
         mk(<<FuncIn("PU1", "b", <<>>, "U1", FALSE, FALSE), XF("P1", <<"U1">>, "T1")>>,
            <<SetD("SetB", "b", <<ItL(1)>>), [SetD("Default", "c", <<ItS(1)>>) EXCEPT !.grp = "=alias"]>>,
            <<XInj("Inject", <<>>, "T1", <<ItS(2), ItL(2)>>, 1)>>)
    [] v \in {"generic-injector", "method-injector"} ->   \* the injector template has a type parameter / is a method
         mk(<<XF("P1", <<"T2">>, "T1"), XF("P3", <<>>, "T3")>>, <<>>,
            <<[XInj("Inject", <<Par("p1", "T2")>>, "T1", <<ItL(1)>>, 1) EXCEPT !.form = IF v = "generic-injector" THEN "generic" ELSE "method"],
              XInj("InjectB", <<>>, "T3", <<ItL(2)>>, 1)>>)
    [] v \in {"inline-set-partly-used", "inline-set-unused", "inline-set-in-named-set", "inline-set-conflict", "inline-set-twice"} ->
         \* wire.NewSet(...) written in place: a member that contributes makes the item contribute; otherwise as a named set
         LET inl(items) == [SetD("Inl", "a", items) EXCEPT !.grp = "=inline"] IN
         mk(<<XF("P1", <<"T2">>, "T1"), XF("P2", <<>>, "T2"), XF("P3", <<>>, "T3"), XF("P2b", <<"T3">>, "T2")>>,
            CASE v = "inline-set-partly-used" -> <<inl(<<ItL(2), ItL(3)>>)>>
              [] v = "inline-set-unused" -> <<inl(<<ItL(3)>>)>>
              [] v = "inline-set-in-named-set" -> <<inl(<<ItL(3)>>), SetD("SetA", "a", <<ItL(2), ItS(1)>>)>>
              [] v = "inline-set-conflict" -> <<inl(<<ItL(4), ItL(3)>>)>>
              [] v = "inline-set-twice" -> <<inl(<<ItL(2)>>), inl(<<ItL(3)>>)>>,
            <<XInj("Inject", <<>>, "T1",
                   CASE v = "inline-set-partly-used" -> <<ItL(1), ItS(1)>>
                     [] v = "inline-set-unused" -> <<ItL(1), ItL(2), ItS(1)>>
                     [] v = "inline-set-in-named-set" -> <<ItS(2), ItL(1)>>
                     [] v = "inline-set-conflict" -> <<ItL(1), ItL(2), ItS(1)>>
                     [] v = "inline-set-twice" -> <<ItS(1), ItL(1), ItS(2)>>, 1)>>)
    [] v = "embedded-fields-struct" ->          \* wire.Struct over a struct with embedded fields (value and pointer), "*" and by name
         mk(<<StructL("St", "S3", <<>>, TRUE), XF("P2", <<>>, "T2"), XF("PP3", <<>>, "*T3"), XF("P8", <<>>, "T8"), StructL("StN", "S3", <<"T3", "T2">>, FALSE)>>, <<>>,
            <<XInj("Inject", <<>>, "*S3", <<ItL(1), ItL(2), ItL(3), ItL(4)>>, 1), XInj("InjectNamed", <<>>, "S3", <<ItL(5), ItL(2), ItL(3)>>, 1)>>)
    [] v = "embedded-fields-fieldsof" ->        \* wire.FieldsOf selecting embedded fields by the type's name
         mk(<<FieldsL("FO", "S3", <<"T2", "T3">>), XF("PS3", <<>>, "S3"), XF("Q", <<"T2", "*T3">>, "T1")>>, <<>>,
            <<XInj("Inject", <<>>, "T1", <<ItL(1), ItL(2), ItL(3)>>, 1)>>)
    [] v = "same-text-values-two-packages" ->   \* wire.Value(Default) in two packages: the same expression text, two different variables
         mk(<<[ValueL("VB", "U1") EXCEPT !.expr = "@var:Default"], [ValueL("VC", "U1") EXCEPT !.expr = "@var:Default"]>>,
            <<SetD("SetB", "b", <<ItL(1)>>), SetD("SetC", "c", <<ItL(2)>>)>>,
            <<XInj("InjectB", <<>>, "U1", <<ItS(1)>>, 1), XInj("InjectC", <<>>, "U1", <<ItS(2)>>, 1), XInj("InjectB2", <<>>, "U1", <<ItS(1)>>, 1)>>)
    [] v = "sets-in-injector-file" ->           \* the provider sets are declared in the injector file itself (copied into the output, which then imports wire)
         mk(<<XF("P2", <<>>, "T2"), XF("P1", <<"T2">>, "T1"), XF("P3", <<>>, "T3")>>, <<SetD("SetA", "a", <<ItL(1), ItL(2)>>), SetD("SetSpare", "a", <<ItL(3)>>)>>,
            <<XInj("InjectA", <<>>, "T1", <<ItS(1)>>, 1), XInj("InjectB", <<>>, "T2", <<ItS(1)>>, 1)>>)
         @@ [opts |-> [setsinwire |-> TRUE]]
    [] v \in {"same-provider-twice-direct", "same-provider-twice-in-set"} ->   \* one provider function listed twice
         mk(<<XF("P2", <<>>, "T2"), XF("P1", <<"T2">>, "T1")>>, <<SetD("SetA", "a", <<ItL(1), ItL(2), ItL(1)>>)>>,
            <<XInj("Inject", <<>>, "T1", IF v = "same-provider-twice-direct" THEN <<ItL(1), ItL(2), ItL(1)>> ELSE <<ItS(1)>>, 1)>>)
    [] v = "cycle-through-pointer-types" ->     \* a cycle whose members are unnamed composite (pointer) types
         mk(<<XF("PA", <<"*T2">>, "*T1"), XF("PB", <<"*T1">>, "*T2"), XF("P3", <<>>, "T3")>>, <<SetD("SetA", "a", <<ItL(1), ItL(2), ItL(3)>>)>>,
            <<XInj("Inject", <<>>, "T3", <<ItS(1)>>, 1)>>)
    [] v = "cycle-behind-bound-interface" ->    \* the cycle search meets the bound interface (I1 sorts first) before the cycle through its concrete type Z
         mk(<<BindL("B", "I1", "Z"), XF("PZ", <<"T9">>, "Z"), XF("P9", <<"Z">>, "T9"), XF("P3", <<>>, "T3")>>, <<SetD("SetA", "a", <<ItL(1), ItL(2), ItL(3)>>)>>,
            <<XInj("Inject", <<>>, "T3", <<ItS(1), ItL(4)>>, 1)>>)
    [] v = "bind-to-field-type" ->              \* an interface bound to a concrete type that only a wire.FieldsOf item of the same call provides
         mk(<<FieldsL("FO", "S4", <<"K">>), BindL("B", "I1", "*C"), XF("PS4", <<>>, "S4"), XF("Q", <<"I1">>, "T9")>>, <<SetD("SetA", "a", <<ItL(1), ItL(2), ItL(3)>>)>>,
            <<XInj("Inject", <<>>, "T9", <<ItL(1), ItL(2), ItL(3), ItL(4)>>, 1), XInj("InjectSet", <<>>, "T9", <<ItS(1), ItL(4)>>, 1)>>)
    [] v = "variadic-dup-param" ->              \* a variadic provider whose fixed parameter has the variadic parameter's slice type
         mk(<<[XF("PV", <<"[]T3", "[]T3">>, "T1") EXCEPT !.va = TRUE], XF("PS", <<>>, "[]T3")>>, <<SetD("SetB", "b", <<>>)>>,
            <<XInj("Inject", <<>>, "T1", <<ItL(1), ItL(2)>>, 1)>>)
    [] v = "arg-returned-directly-full-sig" ->  \* no provider call at all, and the injector declares a cleanup and an error it does not need
         mk(<<BindL("B", "I1", "*C")>>, <<>>,
            <<[XInj("Inject", <<Par("p1", "*C1"), Par("p2", "*C")>>, "*C", <<>>, 1) EXCEPT !.cl = TRUE, !.er = TRUE],
              [XInj("InjectI", <<Par("p1", "*C1"), Par("p2", "*C")>>, "I1", <<ItL(1)>>, 1) EXCEPT !.er = TRUE]>>)
    [] v = "struct-both-forms-plus-superfluous" ->   \* a struct provider needed as S and as *S, and one item nothing needs
         mk(<<StructL("St", "S2", <<"F", "G">>, FALSE), XF("P2", <<>>, "T2"), XF("P3", <<>>, "T3"), XF("Q", <<"S2", "*S2">>, "T1"), XF("P8", <<>>, "T8")>>, <<>>,
            <<XInj("Inject", <<>>, "T1", <<ItL(1), ItL(2), ItL(3), ItL(4), ItL(5)>>, 1), XInj("InjectOK", <<>>, "T1", <<ItL(1), ItL(2), ItL(3), ItL(4)>>, 1)>>)
    [] v = "same-name-packages-one-unused" ->   \* two packages with one name, each with a provider New; only one of them is needed
         mk(<<FuncIn("NewB", "b", <<>>, "U1", FALSE, FALSE), FuncIn("NewC", "c", <<>>, "V1", FALSE, FALSE), XF("P1", <<"U1">>, "T1"), XF("P9", <<"V1">>, "T9")>>, <<>>,
            <<XInj("Inject", <<>>, "T1", <<ItL(1), ItL(2), ItL(3)>>, 1), XInj("InjectC", <<>>, "T9", <<ItL(2), ItL(1), ItL(4)>>, 1)>>)
         @@ [naming |-> [x \in {"pkg:b", "pkg:c", "alias:b", "alias:c", "NewB", "NewC"} |->
                          CASE x \in {"pkg:b", "pkg:c"} -> "store" [] x = "alias:b" -> "bstore" [] x = "alias:c" -> "cstore" [] OTHER -> "New"]]
    [] v \in {"blank-param-conflicts-with-set", "unnamed-param-conflicts-with-set"} ->   \* a parameter named _ (or not named) is a source like any other
         mk(<<XF("P2", <<>>, "T2"), XF("P3", <<>>, "T3"), XF("P1", <<"T2", "T3">>, "T1")>>, <<SetD("SetA", "a", <<ItL(1), ItL(2)>>)>>,
            <<XInj("Inject", <<Par(IF v = "blank-param-conflicts-with-set" THEN "_" ELSE "", "T2")>>, "T1", <<ItS(1), ItL(3)>>, 1)>>)
    [] v = "embed-in-injector-file" ->          \* the injector file has a blank import its copied declarations need; nothing else is imported
         mk(<<XF("P3", <<>>, "T3")>>, <<>>, <<XInj("Inject", <<>>, "T3", <<ItL(1)>>, 1)>>) @@ [opts |-> [embeddecl |-> TRUE]]
    [] v = "same-name-packages-poorer-set" ->   \* two packages with one name, each with a set Set; the second one lacks what the first provides
         mk(<<FuncIn("NewB", "b", <<>>, "U1", FALSE, FALSE), FuncIn("NewB2", "b", <<>>, "U2", FALSE, FALSE), FuncIn("NewC", "c", <<>>, "V1", FALSE, FALSE),
              XF("P1", <<"U1", "U2">>, "T1"), XF("P9", <<"V1", "U2">>, "T9")>>,
            <<SetD("SetB", "b", <<ItL(1), ItL(2)>>), SetD("SetC", "c", <<ItL(3)>>)>>,
            <<XInj("InjectB", <<>>, "T1", <<ItS(1), ItL(4)>>, 1), XInj("InjectC", <<>>, "T9", <<ItS(2), ItL(5)>>, 1)>>)
         @@ [naming |-> [x \in {"pkg:b", "pkg:c", "alias:b", "alias:c", "SetB", "SetC"} |->
                          CASE x \in {"pkg:b", "pkg:c"} -> "store" [] x = "alias:b" -> "bstore" [] x = "alias:c" -> "cstore" [] OTHER -> "Set"]]
    [] v = "multi-name-var-sets-bind" ->        \* the second name of a multi-name var spec holds the binding and the provider of its concrete type
         mk(<<XF("P2", <<>>, "T2"), BindL("B", "I1", "*C"), XF("PC", <<"T2">>, "*C"), XF("Q", <<"I1">>, "T9")>>,
            <<[SetD("SetA", "a", <<ItL(1)>>) EXCEPT !.grp = "g"], [SetD("SetB", "a", <<ItL(2), ItL(3)>>) EXCEPT !.grp = "g"]>>,
            <<XInj("Inject", <<>>, "T9", <<ItS(1), ItS(2), ItL(4)>>, 1)>>)
    [] v = "multi-name-var-sets-badsig" ->      \* the second name of a multi-name var spec holds a provider with an illegal result list
         mk(<<XF("P2", <<>>, "T2"), [XF("PBad", <<>>, "T3") EXCEPT !.res = <<"value", "value">>], XF("P1", <<"T2">>, "T1")>>,
            <<[SetD("SetA", "a", <<ItL(1)>>) EXCEPT !.grp = "g"], [SetD("SetB", "a", <<ItL(2)>>) EXCEPT !.grp = "g"]>>,
            <<XInj("Inject", <<>>, "T1", <<ItS(1), ItL(3)>>, 1)>>)
    [] v = "value-in-shared-set" ->             \* one wire.Value expression reached by three injectors through a named set
         mk(<<ValueL("V2", "T2"), XF("P1", <<"T2">>, "T1"), ValueL("V3", "*T3")>>, <<SetD("SetV", "a", <<ItL(1), ItL(3)>>)>>,
            <<XInj("InjectA", <<>>, "T1", <<ItS(1), ItL(2)>>, 1), XInj("InjectB", <<>>, "T2", <<ItS(1)>>, 1), XInj("InjectC", <<>>, "*T3", <<ItS(1)>>, 2)>>)
    [] v = "two-files-first-unused" ->          \* the injector with the superfluous item sits in the first of two injector files
         mk(<<XF("P1", <<>>, "T1"), XF("P3", <<>>, "T3"), XF("P8", <<>>, "T8")>>, <<>>,
            <<XInj("InjectA", <<>>, "T1", <<ItL(1), ItL(3)>>, 1), XInj("InjectB", <<>>, "T3", <<ItL(2)>>, 2)>>)
    [] v = "structlit-dup-fields" ->            \* the deprecated struct-literal provider over a struct with two fields of one type
         [mk(<<StructLitL("SL", "S5"), XF("P2", <<>>, "T2"), XF("Q", <<"S5">>, "T1")>>, <<>>,
             <<XInj("Inject", <<>>, "T1", <<ItL(1), ItL(2), ItL(3)>>, 1)>>) EXCEPT !.atoms = XAtoms \o <<StructT("S5", "a", <<Fld("A", "T2"), Fld("B", "T2")>>)>>]
    [] v = "foreign-struct-sole-reference" ->   \* a struct literal is the only reference to package b, and an earlier local is named like that package
         [mk(<<StructL("St", "SB", <<>>, TRUE), XF("PV1", <<>>, "V1"), XF("P2", <<>>, "T2"), XF("Q", <<"T2", "SB">>, "T1")>>, <<>>,
             <<XInj("Inject", <<>>, "T1", <<ItL(1), ItL(2), ItL(3), ItL(4)>>, 1)>>) EXCEPT !.atoms = XAtoms \o <<StructT("SB", "b", <<Fld("A", "V1")>>)>>]
         @@ [naming |-> [x \in {"T2"} |-> "B"]]
    [] v = "bind-three-sets-deep" ->            \* the binding sits three provider sets below the injector; interface and concrete type are both consumed
         mk(<<BindL("B", "I1", "*C"), XF("PC", <<>>, "*C"), XF("App", <<"I1", "*C">>, "T1")>>,
            <<SetD("BarSet", "a", <<ItL(1), ItL(2)>>), SetD("InfraSet", "a", <<ItS(1)>>), SetD("AppSet", "a", <<ItS(2), ItL(3)>>)>>,
            <<XInj("Inject", <<>>, "T1", <<ItS(3)>>, 1)>>)
    [] v = "set-through-alias-only-path" ->     \* the package that declares the set is reachable from the injector's package only through a package that re-exports it and does not import wire
         [mk(<<FuncIn("PW", "b", <<>>, "W1", FALSE, FALSE)>>,
             <<SetD("SetB", "b", <<ItL(1)>>), [SetD("Default", "c", <<ItS(1)>>) EXCEPT !.grp = "=alias"]>>,
             <<XInj("Inject", <<>>, "W1", <<ItS(2)>>, 1)>>) EXCEPT !.atoms = XAtoms \o <<TokIn("W1", "d")>>]
    [] v = "multi-name-var-sets-conflict" ->    \* the second name of a multi-name var spec holds the provider that conflicts with a direct item
         mk(<<XF("P3", <<>>, "T3"), XF("P2", <<>>, "T2"), XF("P2b", <<"T3">>, "T2"), XF("P1", <<"T2">>, "T1")>>,
            <<[SetD("SetA", "a", <<ItL(1)>>) EXCEPT !.grp = "g"], [SetD("SetB", "a", <<ItL(1), ItL(2)>>) EXCEPT !.grp = "g"]>>,
            <<XInj("Inject", <<>>, "T1", <<ItS(2), ItL(3), ItL(4)>>, 1)>>)
    [] v = "same-set-twice-direct" ->          \* one set listed twice in the same call
         mk(<<XF("P2", <<>>, "T2"), XF("P1", <<"T2">>, "T1")>>, <<SetD("SetA", "a", <<ItL(1)>>)>>,
            <<XInj("Inject", <<>>, "T1", <<ItS(1), ItL(2), ItS(1)>>, 1)>>)
    [] v = "same-set-twice-in-set" ->
         mk(<<XF("P2", <<>>, "T2"), XF("P1", <<"T2">>, "T1")>>, <<SetD("SetA", "a", <<ItL(1)>>), SetD("SetB", "a", <<ItS(1), ItS(1)>>)>>,
            <<XInj("Inject", <<>>, "T1", <<ItS(2), ItL(2)>>, 1)>>)
XVariants == {"star-foreign-tag-missing", "star-foreign-tag-ok", "two-files-first-missing", "two-files-second-missing", "two-files-ok",
              "missing-behind-bind", "missing-behind-bind-2", "bind-iface-not-implementing", "arg-returned-through-bind",
              "arg-returned-directly", "shared-import-bind-lacks-concrete", "multi-name-var-sets", "same-set-twice-direct", "same-set-twice-in-set",
              "foreign-struct-star", "foreign-struct-unexported-name", "foreign-struct-exported-name", "variadic-err-provider",
              "same-named-sets-two-packages", "two-unnamed-values", "same-name-packages", "two-fieldsof-items", "bind-after-concrete",
              "iface-result-bound-to-value-struct", "alias-satisfies", "defined-type-does-not-satisfy", "pointer-does-not-satisfy-value",
              "value-does-not-satisfy-pointer", "multi-name-var-sets-missing", "two-fieldsof-second-unused", "missing-under-fieldsof-parent",
              "set-used-by-first-injector-only", "struct-fields-from-params-crossed", "inaccessible-value", "inaccessible-value-full-sig",
              "foreign-struct-star-full-sig", "unnamed-params-same-type-name", "set-through-plain-alias-package",
              "generic-injector", "method-injector",
              "inline-set-partly-used", "inline-set-unused", "inline-set-in-named-set", "inline-set-conflict", "inline-set-twice",
              "embedded-fields-struct", "embedded-fields-fieldsof", "same-text-values-two-packages",
              "sets-in-injector-file", "same-provider-twice-direct", "same-provider-twice-in-set",
              "cycle-through-pointer-types", "cycle-behind-bound-interface", "bind-to-field-type", "variadic-dup-param", "arg-returned-directly-full-sig",
              "struct-both-forms-plus-superfluous", "same-name-packages-one-unused", "blank-param-conflicts-with-set", "unnamed-param-conflicts-with-set", "embed-in-injector-file", "same-name-packages-poorer-set", "multi-name-var-sets-bind", "multi-name-var-sets-badsig",
              "value-in-shared-set", "two-files-first-unused", "structlit-dup-fields", "foreign-struct-sole-reference",
              "bind-three-sets-deep", "set-through-alias-only-path", "multi-name-var-sets-conflict"}
FamilyX(p, vs) == \E v \in vs : p = XProg(v)

(* ======================================================================== *)
(* Family R2: a chain P1 <- P2 <- ... <- Pn in which every link is realised *)
(* in one of four ways - "d" the consumer takes the provider's type, "b" it *)
(* takes an interface bound to it, "s" it takes a pointer to a struct that  *)
(* wire.Struct builds around it, "f" it takes a field selected (FieldsOf)   *)
(* from the struct the provider returns - with every flavour assignment.    *)
(* Fault schedules as in family R: failures and cleanups interleaved with   *)
(* the steps that are not provider calls.                                   *)
(* ======================================================================== *)
NS(pfx, j) == pfx \o ToString(j)
R2Out(j, k) == CASE k = "b" -> Ptr(NS("C", j)) [] k = "f" -> NS("R", j) [] OTHER -> NS("T", j)      \* what Pj returns
R2In(j, k)  == CASE k = "b" -> NS("I", j) [] k = "s" -> Ptr(NS("S", j)) [] k = "f" -> NS("U", j) [] OTHER -> NS("T", j)   \* what P(j-1) takes
R2Prog(n, lk, fl) ==
  LET kind(j) == IF j = 1 THEN "d" ELSE lk[j]
      atoms == FlattenSeq([j \in 1..n |->
                 <<Tok(NS("T", j)), Tok(NS("U", j)), Iface(NS("I", j), "a", <<>>),
                   MkAtom(NS("C", j), "tok", "a", <<>>, <<>>, <<Impl(NS("I", j), "pointer")>>, ""),
                   StructT(NS("S", j), "a", <<Fld("X", NS("T", j))>>), StructT(NS("R", j), "a", <<Fld("X", NS("U", j))>>)>>])
      prov(j) == Func(PN(j), IF j < n THEN <<R2In(j + 1, kind(j + 1))>> ELSE <<>>, R2Out(j, kind(j)), FlCl(fl[j]), FlEr(fl[j]))
      glue(j) == CASE kind(j) = "b" -> <<BindL(NS("B", j), NS("I", j), Ptr(NS("C", j)))>>
                   [] kind(j) = "s" -> <<StructL(NS("St", j), NS("S", j), <<"X">>, FALSE)>>
                   [] kind(j) = "f" -> <<FieldsL(NS("FO", j), NS("R", j), <<"X">>)>>
                   [] OTHER -> <<>>
      leaves == FlattenSeq([j \in 1..n |-> <<prov(j)>> \o glue(j)])
      key == "R2/n" \o ToString(n) \o "/" \o ConcatStr([j \in 1..(n - 1) |-> lk[j + 1]]) \o "/" \o ConcatStr(fl)
  IN [Prog(key, "R", atoms, leaves, <<>>, <<Inj("Inject", <<>>, "T1", TRUE, TRUE, [i \in DOMAIN leaves |-> ItL(i)])>>) EXCEPT !.fam = "R"]
FamilyR2(p, n) == \E lk \in [2..n -> {"d", "b", "s", "f"}] : \E fl \in [1..n -> {"p", "e", "c", "b"}] : p = R2Prog(n, lk, fl)
=============================================================================
