------------------------------- MODULE WireFront -------------------------------
(***************************************************************************)
(* The front end of Wire (property C20): every type-correct way of writing *)
(* the argument of a marker function is classified either as an item or    *)
(* as a diagnostic with a position in the user's sources.  There is no     *)
(* "panic" and no "silent failure" outcome.  All marker functions take     *)
(* interface{} arguments, so every Go expression type-checks in every      *)
(* argument position: the input space is marker x position x form.         *)
(***************************************************************************)
EXTENDS WireFamilies

Outcomes == {"item", "diagnostic"}           \* the whole outcome domain

\* argument positions of the marker functions
Positions == {"Build.item", "NewSet.item", "Struct.type", "Struct.field", "FieldsOf.type", "FieldsOf.field",
              "Bind.iface", "Bind.impl", "Value.expr", "InterfaceValue.iface", "InterfaceValue.expr"}
\* forms an argument can take (the renderer knows how each is spelled in Go)
ExprForms == {"func", "setvar", "intvar", "const", "nil", "int-literal", "string-literal", "new-named", "new-anon-struct",
              "new-ptr", "new-int", "new-iface", "new-generic", "addr-of-var", "ptr-var", "nil-conversion", "iface-nil-conversion",
              "parenthesized-func", "parenthesized-new", "conversion", "func-literal", "method-value", "generic-func", "composite-literal",
              "struct-literal", "call-result", "set-call-result", "field-of-struct-value", "index-expr", "star-deref", "type-assertion",
              "new-named-other-pkg", "set-other-pkg", "aliased-set-var", "new-slice", "new-map", "new-chan", "new-func", "new-array", "unsafe-ptr"}
FieldForms == {"literal", "const", "var", "concat", "raw-string", "spread", "star-mixed", "empty", "int-literal", "duplicate", "repeat-beyond-field-count", "unknown", "unexported"}
\* special whole-file shapes
Specials == {"dot-import-bind", "dot-import-build", "alias-import", "multi-assign-set-var", "multi-name-set-var", "build-no-args",
             "build-twice", "build-not-first", "generic-injector", "set-var-no-value", "set-var-composite", "struct-no-fields",
             "fieldsof-no-names", "fieldsof-too-many", "newset-of-newset", "build-of-build", "struct-of-pointer-pointer",
             "fieldsof-ptr-ptr-ptr", "bind-ptr-ptr", "build-in-panic", "build-in-return", "injector-no-result", "injector-four-results",
             "other-func-panics-method-call", "other-func-panics-call-of-call", "other-func-panics-index-call"}

FrontProg(pos, form) ==
  [Prog("F/" \o pos \o "/" \o form, "F", <<>>, <<>>, <<>>, <<>>) EXCEPT !.fam = "F"] @@ [front |-> [pos |-> pos, form |-> form]]
FamilyF(p) ==
  \/ \E pos \in Positions \ {"Struct.field", "FieldsOf.field"} : \E f \in ExprForms : p = FrontProg(pos, f)
  \/ \E pos \in {"Struct.field", "FieldsOf.field"} : \E f \in FieldForms : p = FrontProg(pos, f)
  \/ \E s \in Specials : p = FrontProg("special", s)
\* what must hold of every observation: an outcome of the domain
CaseF(P) == [key |-> P.key, fam |-> "F", prog |-> P,
             expect |-> <<[inj |-> "Inject", verdict |-> "free", reasons |-> {}, ambiguous |-> {}, cyclic |-> {}, missing |-> {},
                           unused |-> {}, funcs |-> {}, wiring |-> [t \in {} |-> 0], scheds |-> <<>>]>>,
             invalidsets |-> {}]
=============================================================================
