---------------------------- MODULE WireCliTrace ----------------------------
(***************************************************************************)
(* Trace validation of command histories: every step recorded from the     *)
(* real wire binary (command, arguments, exit status, which output slots   *)
(* changed, the abstract content of every output slot afterwards, any      *)
(* other path that changed) must be a step of WireCli.                     *)
(*                                                                         *)
(* Mode switches select what a step is held to, so that each property's    *)
(* check enforces only what that property states:                          *)
(*   CkStatus    exit status of gen and diff                       (C17)   *)
(*   CkFootprint which files a command may touch                   (C17)   *)
(*   CkRegen     content after a successful gen; gen;gen; gen;diff (C18)   *)
(*   CkCheck     check/show agree with gen                         (C19)   *)
(* The machine always adopts the *observed* disk as its next state, so a   *)
(* deviation in an unchecked aspect does not derail the rest of the walk.  *)
(***************************************************************************)
EXTENDS WireCli

CONSTANTS TraceFile, CkStatus, CkFootprint, CkRegen, CkCheck

Trace == ndJsonDeserialize(TraceFile)

VARIABLES l, st      \* position in Trace; "ok" | "skip"
tvars == <<vars, l, st>>

Ev == Trace[l]
More == l <= Len(Trace)
SetOf(s) == {s[i] : i \in DOMAIN s}

ObsDisk(e) == [s \in Slot |-> e.disk[s[1]][s[2]]]
Changed(e) == {s \in Slot : ObsDisk(e)[s] # disk[s]}

TInit == /\ l = 1 /\ st = "skip"
         /\ src = [p \in Pkgs |-> "noinj"] /\ disk = [s \in Slot |-> "absent"]
         /\ hist = <<>> /\ last = [cmd |-> "none", args |-> [pkgs |-> {}], exit |-> 0]

\* a new walk starts: fresh sandbox with the given sources and the output files as set up (observed)
TReset == /\ More /\ Ev.cmd = "reset"
          /\ src' = [p \in Pkgs |-> Ev.src[p]]
          /\ disk' = ObsDisk(Ev)
          /\ last' = [cmd |-> "none", args |-> [pkgs |-> {}], exit |-> 0]
          /\ hist' = <<>> /\ st' = "ok" /\ l' = l + 1

Adopt(e) == disk' = ObsDisk(e)
NoOther(e) == CkFootprint => e.othermod = <<>>

TEdit == /\ More /\ st = "ok" /\ Ev.cmd = "edit"
         /\ src' = [src EXCEPT ![Ev.args.pkg] = Ev.args.variant]
         /\ CkFootprint => Changed(Ev) = {}
         /\ Adopt(Ev) /\ last' = [cmd |-> "edit", args |-> Ev.args, exit |-> 0]
         /\ UNCHANGED hist /\ st' = st /\ l' = l + 1
\* the user's own manipulations of output files: adopted as observed
TUser == /\ More /\ st = "ok" /\ Ev.cmd \in {"delete", "clobber"}
         /\ Changed(Ev) \subseteq {<<Ev.args.pkg, Ev.args.prefix>>}
         /\ ObsDisk(Ev)[<<Ev.args.pkg, Ev.args.prefix>>] = (IF Ev.cmd = "delete" THEN "absent" ELSE Ev.args.content)
         /\ Adopt(Ev) /\ last' = [cmd |-> Ev.cmd, args |-> Ev.args, exit |-> 0]
         /\ UNCHANGED <<src, hist>> /\ st' = st /\ l' = l + 1

TGen ==
  /\ More /\ st = "ok" /\ Ev.cmd = "gen"
  /\ LET P == SetOf(Ev.args.pkgs)  hdr == Ev.args.header  x == Ev.args.prefix  tg == Ev.args.tags
         want == GenDisk(P, hdr, x, tg)
         samecmd == last.cmd = "gen" /\ last.exit = 0 /\ last.args = [Ev.args EXCEPT !.pkgs = P]
     IN /\ CkStatus => Ev.exit = GenExit(P, hdr, tg)
        /\ CkFootprint =>
             /\ \A s \in Changed(Ev) : s[1] \in P /\ s[2] = x /\ Generates(Eff(src[s[1]], tg))             \* only its own output files
             /\ \A s \in Slot : want[s] # disk[s] /\ want[s] # "absent" => ObsDisk(Ev)[s] # "absent"          \* isolation: the others still get output
             /\ NoOther(Ev)
        /\ CkRegen =>
             /\ Ev.exit = 0 => \A p \in P : Generates(Eff(src[p], tg)) => ObsDisk(Ev)[<<p, x>>] = Fresh(Eff(src[p], tg), hdr, tg)  \* what a fresh checkout gets
             /\ samecmd => Changed(Ev) = {}                                                                     \* gen again changes nothing
        /\ last' = [cmd |-> "gen", args |-> [Ev.args EXCEPT !.pkgs = P], exit |-> Ev.exit]
  /\ Adopt(Ev) /\ UNCHANGED <<src, hist>> /\ st' = st /\ l' = l + 1

TDiff ==
  /\ More /\ st = "ok" /\ Ev.cmd = "diff"
  /\ LET P == SetOf(Ev.args.pkgs)  hdr == Ev.args.header  tg == Ev.args.tags
         aftergen == last.cmd = "gen" /\ last.exit = 0 /\ last.args.prefix = "std" /\ last.args.pkgs = P
                     /\ last.args.header = hdr /\ last.args.tags = tg
     IN /\ CkStatus => Ev.exit = DiffExit(P, hdr, tg)
        /\ CkFootprint => Changed(Ev) = {} /\ NoOther(Ev)
        /\ CkRegen => (aftergen => Ev.exit = 0)
        /\ last' = [cmd |-> "diff", args |-> [pkgs |-> P, header |-> hdr, tags |-> tg], exit |-> Ev.exit]
  /\ Adopt(Ev) /\ UNCHANGED <<src, hist>> /\ st' = st /\ l' = l + 1

TCheckShow ==
  /\ More /\ st = "ok" /\ Ev.cmd \in {"check", "show"}
  /\ LET P == SetOf(Ev.args.pkgs)  tg == Ev.args.tags
     IN /\ CkCheck => Ev.exit = CheckExit(P, tg)
        /\ CkFootprint => Changed(Ev) = {} /\ NoOther(Ev)
        /\ last' = [cmd |-> Ev.cmd, args |-> [pkgs |-> P, tags |-> tg], exit |-> Ev.exit]
  /\ Adopt(Ev) /\ UNCHANGED <<src, hist>> /\ st' = st /\ l' = l + 1

TSkip == /\ More /\ st = "skip" /\ Ev.cmd # "reset"
         /\ UNCHANGED vars /\ st' = st /\ l' = l + 1

Normal == TReset \/ TEdit \/ TUser \/ TGen \/ TDiff \/ TCheckShow \/ TSkip
TReject == /\ More /\ ~ENABLED Normal
           /\ PrintT(<<"REJECT", l, Ev.walk, Ev.step, Ev.cmd>>)
           /\ st' = "skip" /\ l' = l + 1 /\ UNCHANGED vars
TNext == Normal \/ TReject
TSpec == TInit /\ [][TNext]_tvars
PostOK == PrintT(<<"CONSUMED", TLCGet("stats").diameter - 1, Len(Trace)>>) /\ TLCGet("stats").diameter = Len(Trace) + 1
=============================================================================
