------------------------------- MODULE WireCli -------------------------------
(***************************************************************************)
(* The command line of wire against a file system (properties C17, C18,    *)
(* C19): packages whose sources are in one of several variants, the        *)
(* generated files on disk, and the commands gen / diff / check / show     *)
(* plus the user's edits, deletions and clobberings of the output files.   *)
(*                                                                         *)
(* The abstract state is (src, disk) only: "regeneration depends only on   *)
(* the current sources, not on history" is exactly the statement that the  *)
(* real tool simulates this machine, whatever the history.                 *)
(***************************************************************************)
EXTENDS Naturals, Sequences, FiniteSets, TLC, Json

CONSTANTS Pkgs,          \* e.g. {"p", "q"}
          Prefixes,      \* output file prefixes in play: {"std"} or {"std", "x_"}  ("std" = no prefix: wire_gen.go)
          MaxHist        \* > 0: record a history of that length and stop (simulation); 0: no history (exhaustive)

\* source variants of a package
\*  okA, okB : injectors that generate (different output)
\*  bad      : an injector Wire must refuse (missing provider)
\*  noinj    : no injector at all (a provider set only)
\*  typeerr  : does not type-check (outside the properties' quantifier; modelled as what happens)
\*  okA2     : okA plus one more injector at the end (its output extends okA's output)
\*  tagbad   : okA plus a file constrained to the build tag "extra" whose injector Wire must refuse: what the package is
\*             depends on the -tags of the command (Eff)
Variants == {"okA", "okA2", "okB", "bad", "noinj", "typeerr", "tagbad"}
HasInj(v) == v \in {"okA", "okA2", "okB", "bad", "typeerr", "tagbad"}
Generates(v) == v \in {"okA", "okA2", "okB"}

Headers  == {"none", "ok", "unreadable"}
\* diff only: a readable header file that is not comment text - the output cannot be formatted, so nothing can be compared
\* (gen with such a header reports the failure AND writes the unformattable file, after which the package no longer loads:
\* that state is outside the properties and is not modelled, so gen never gets this header here)
DiffHeaders == Headers \cup {"notgo"}
Tags     == {"", "extra more"}        \* none, or two extra build tags in wire's space-separated form
\* the variant a package presents to a command run with the tags tg
Eff(v, tg) == IF v = "tagbad" THEN (IF tg = "" THEN "okA" ELSE "bad") ELSE v

\* content of an output file
Fresh(v, hdr, tg) == "gen:" \o v \o ":" \o hdr \o ":" \o tg
Junk == {"stale", "broken", "garbage"}          \* all carry the !wireinject constraint
Contents == {"absent"} \cup Junk \cup {Fresh(v, h, t) : v \in {"okA", "okA2", "okB"}, h \in {"none", "ok"}, t \in Tags}

VARIABLES src,    \* package -> variant
          disk,   \* <<package, prefix>> -> content
          last,   \* the last command with its exit status (observation only)
          hist    \* recorded commands with their expected results (observation only; simulation)
vars == <<src, disk, last, hist>>
view == <<src, disk>>      \* observation variables do not make states different

Slot == Pkgs \X Prefixes

Init == /\ src \in [Pkgs -> {"okA", "bad", "noinj"}]
        /\ disk = [s \in Slot |-> "absent"]
        /\ hist = <<>>
        /\ last = [cmd |-> "none", args |-> [pkgs |-> {}], exit |-> 0]

\* record the command: always in last, and in hist while a history is being recorded
\* any state at all: the replay constructs it directly on disk (sources + output files), so that short histories
\* reach every combination of stale / damaged / fresh files and source variants
InitAny == /\ src \in [Pkgs -> Variants]
           /\ disk \in [Slot -> Contents]
           /\ \A s \in Slot : s[2] # "std" => disk[s] \in {"absent", "stale", Fresh("okA", "none", "")}   \* keeps the number of initial states below TLC's simulation limit
           /\ hist = <<>>
           /\ last = [cmd |-> "none", args |-> [pkgs |-> {}], exit |-> 0]

\* the same for three packages, with fewer source variants and contents (TLC's simulator enumerates all initial states first)
InitAny3 == /\ src \in [Pkgs -> {"okA", "okB", "bad", "noinj", "tagbad"}]
            /\ disk \in [Slot -> {"absent", "stale", Fresh("okA", "none", ""), Fresh("okB", "none", ""), Fresh("okA", "ok", "extra more")}]
            /\ hist = <<>>
            /\ last = [cmd |-> "none", args |-> [pkgs |-> {}], exit |-> 0]

\* focused one-step histories: every combination of source variants with output files that are absent, stale or
\* exactly fresh for some (header, tags) - the states in which diff / gen status and isolation are decided
InitFocus == /\ src \in [Pkgs -> Variants]
             /\ \E h \in {"none", "ok"}, t \in Tags :
                  disk \in [Slot -> {"absent", "stale"} \cup {Fresh(v, h, t) : v \in {"okA", "okA2", "okB"}}]
             /\ \A s \in Slot : disk[s] \in {"absent", "stale"}
                                 \/ \E h \in {"none", "ok"}, t \in Tags : Generates(Eff(src[s[1]], t)) /\ disk[s] = Fresh(Eff(src[s[1]], t), h, t)
             /\ hist = <<>>
             /\ last = [cmd |-> "none", args |-> [pkgs |-> {}], exit |-> 0]

Rec(cmd, args, exit) ==
  /\ last' = [cmd |-> cmd, args |-> args, exit |-> exit]
  /\ hist' = IF MaxHist = 0 THEN hist
             ELSE Append(hist, [cmd |-> cmd, args |-> args, exit |-> exit, src0 |-> src,
                                disk0 |-> [p \in Pkgs |-> [x \in Prefixes |-> disk[<<p, x>>]]],
                                src |-> src', disk |-> [p \in Pkgs |-> [x \in Prefixes |-> disk'[<<p, x>>]]]])

(* ---- user actions ---------------------------------------------------------- *)
Edit(p, v) == /\ src[p] # v
              /\ src' = [src EXCEPT ![p] = v]
              /\ UNCHANGED disk
              /\ Rec("edit", [pkg |-> p, variant |-> v], 0)
DeleteOut(p, x) == /\ disk[<<p, x>>] # "absent"
                   /\ disk' = [disk EXCEPT ![<<p, x>>] = "absent"]
                   /\ UNCHANGED src
                   /\ Rec("delete", [pkg |-> p, prefix |-> x], 0)
Clobber(p, x, c) == /\ disk[<<p, x>>] # c
                    /\ disk' = [disk EXCEPT ![<<p, x>>] = c]
                    /\ UNCHANGED src
                    /\ Rec("clobber", [pkg |-> p, prefix |-> x, content |-> c], 0)

(* ---- wire gen ---------------------------------------------------------------- *)
LoadFails(P) == \E p \in P : src[p] = "typeerr"
SomeBad(P, tg) == \E p \in P : Eff(src[p], tg) = "bad"
GenExit(P, hdr, tg) == IF hdr = "unreadable" \/ LoadFails(P) \/ SomeBad(P, tg) THEN 1 ELSE 0
GenDisk(P, hdr, x, tg) ==
  IF hdr = "unreadable" \/ LoadFails(P) THEN disk              \* nothing is written at all
  ELSE [s \in Slot |->
          IF s[1] \in P /\ s[2] = x /\ Generates(Eff(src[s[1]], tg))
          THEN Fresh(Eff(src[s[1]], tg), hdr, tg)                         \* whole-file overwrite, whatever was there
          ELSE disk[s]]                                          \* failing / injector-less / other packages untouched
Gen(P, hdr, x, tg, form) ==
  /\ form = "default" => (hdr = "none" /\ x = "std" /\ tg = "")
  /\ disk' = GenDisk(P, hdr, x, tg)
  /\ UNCHANGED src
  /\ Rec("gen", [pkgs |-> P, header |-> hdr, prefix |-> x, tags |-> tg, form |-> form], GenExit(P, hdr, tg))

(* ---- wire diff / check / show: read-only ----------------------------------- *)
DiffExit(P, hdr, tg) ==
  IF hdr = "unreadable" \/ LoadFails(P) \/ SomeBad(P, tg) THEN 2
  ELSE IF hdr = "notgo" /\ \E p \in P : Generates(Eff(src[p], tg)) THEN 2
  ELSE IF \E p \in P : Generates(Eff(src[p], tg)) /\ disk[<<p, "std">>] # Fresh(Eff(src[p], tg), hdr, tg) THEN 1
  ELSE 0
\* per package: what diff finds there (recorded so that replay samples can be stratified by it)
DiffFinds(p, hdr, tg) == IF ~Generates(Eff(src[p], tg)) THEN Eff(src[p], tg)
                         ELSE IF disk[<<p, "std">>] = Fresh(Eff(src[p], tg), hdr, tg) THEN "same" ELSE "differs"
Diff(P, hdr, tg) ==
  /\ UNCHANGED <<src, disk>>
  /\ Rec("diff", [pkgs |-> P, header |-> hdr, tags |-> tg, finds |-> [p \in P |-> DiffFinds(p, hdr, tg)]], DiffExit(P, hdr, tg))
CheckExit(P, tg) == IF LoadFails(P) \/ SomeBad(P, tg) THEN 1 ELSE 0
Check(P, tg) == /\ UNCHANGED <<src, disk>>
                /\ Rec("check", [pkgs |-> P, tags |-> tg], CheckExit(P, tg))
Show(P, tg)  == /\ UNCHANGED <<src, disk>>
                /\ Rec("show", [pkgs |-> P, tags |-> tg], CheckExit(P, tg))

NonEmpty(S) == (SUBSET S) \ {{}}
Next ==
  /\ MaxHist = 0 \/ Len(hist) < MaxHist
  /\ \/ \E p \in Pkgs, v \in Variants : Edit(p, v)
     \/ \E p \in Pkgs, x \in Prefixes : DeleteOut(p, x)
     \/ \E p \in Pkgs, x \in Prefixes, c \in Junk : Clobber(p, x, c)
     \/ \E P \in NonEmpty(Pkgs), hdr \in Headers, x \in Prefixes, tg \in Tags, form \in {"gen", "default"} : Gen(P, hdr, x, tg, form)
     \/ \E P \in NonEmpty(Pkgs), hdr \in DiffHeaders, tg \in Tags : Diff(P, hdr, tg)
     \/ \E P \in NonEmpty(Pkgs), tg \in Tags : Check(P, tg)
     \/ \E P \in NonEmpty(Pkgs), tg \in Tags : Show(P, tg)
NextDiff == (MaxHist = 0 \/ Len(hist) < MaxHist) /\ \E P \in NonEmpty(Pkgs), hdr \in DiffHeaders, tg \in Tags : Diff(P, hdr, tg)
NextGen  == (MaxHist = 0 \/ Len(hist) < MaxHist) /\ \E P \in NonEmpty(Pkgs), hdr \in Headers, x \in Prefixes, tg \in Tags : Gen(P, hdr, x, tg, "gen")
NextCheck == (MaxHist = 0 \/ Len(hist) < MaxHist) /\ \E P \in NonEmpty(Pkgs), tg \in Tags : Check(P, tg) \/ Show(P, tg)
\* gen immediately followed by the matching diff (C18's last clause), from every focused state
NextGenDiff == /\ Len(hist) < MaxHist
               /\ IF hist = <<>> THEN \E P \in NonEmpty(Pkgs), hdr \in {"none", "ok"}, tg \in Tags : Gen(P, hdr, "std", tg, "gen")
                  ELSE Diff(last.args.pkgs, last.args.header, last.args.tags)
Spec == Init /\ [][Next]_vars

(* ---- properties (all over the step just taken: last', src', disk') -------------- *)
TypeOK == /\ src \in [Pkgs -> Variants]
          /\ \A s \in Slot : disk[s] \in Contents
IsGen  == last'.cmd = "gen"
\* C17: gen creates or modifies only <prefix>wire_gen.go of packages that have injectors and analysed cleanly
OnlyOutputFiles == [][\A s \in Slot : disk'[s] # disk[s] =>
                        \/ last'.cmd \in {"delete", "clobber"}
                        \/ /\ IsGen /\ s[1] \in last'.args.pkgs /\ s[2] = last'.args.prefix /\ Generates(Eff(src[s[1]], last'.args.tags))]_vars
\* C17: a failing package's existing file is untouched
FailingUntouched == [][IsGen => \A s \in Slot : ~Generates(Eff(src[s[1]], last'.args.tags)) => disk'[s] = disk[s]]_vars
\* C17: diff, check and show never modify the tree
ReadOnly == [][last'.cmd \in {"diff", "check", "show"} => disk' = disk /\ src' = src]_vars
\* C17: exit 0 exactly when no package produced an error
GenStatus == [][IsGen /\ last'.args.header # "unreadable" =>
                 (last'.exit = 0 <=> \A p \in last'.args.pkgs : Eff(src[p], last'.args.tags) \in {"okA", "okA2", "okB", "noinj"})]_vars
\* C17: a failing package does not prevent output for the others of the same invocation
Isolation == [][IsGen /\ last'.args.header # "unreadable" /\ ~LoadFails(last'.args.pkgs) =>
                 \A p \in last'.args.pkgs : Generates(Eff(src[p], last'.args.tags)) =>
                    disk'[<<p, last'.args.prefix>>] = Fresh(Eff(src[p], last'.args.tags), last'.args.header, last'.args.tags)]_vars
\* C17: diff status
DiffStatus == [][last'.cmd = "diff" =>
                  LET P == last'.args.pkgs
                      tg == last'.args.tags
                      cannot == (last'.args.header = "unreadable")
                                \/ (\E p \in P : Eff(src[p], tg) \in {"bad", "typeerr"})
                                \/ (last'.args.header = "notgo" /\ (\E p \in P : Generates(Eff(src[p], tg))))
                  IN /\ (last'.exit = 2) <=> cannot
                     /\ (last'.exit = 0) => (\A p \in P : Generates(Eff(src[p], tg)) =>
                                               disk[<<p, "std">>] = Fresh(Eff(src[p], tg), last'.args.header, tg))]_vars
\* C18: after a successful gen the file is what a fresh checkout would get - whatever the state (hence the history) was
Regen == [][IsGen /\ last'.exit = 0 =>
             \A p \in last'.args.pkgs : Generates(Eff(src[p], last'.args.tags)) =>
                disk'[<<p, last'.args.prefix>>] = Fresh(Eff(src[p], last'.args.tags), last'.args.header, last'.args.tags)]_vars
\* C18: gen again changes nothing; diff immediately afterwards reports no difference
GenIdempotent == [][(last.cmd = "gen" /\ last.exit = 0 /\ IsGen /\ last'.args = last.args) => disk' = disk]_vars
DiffAfterGenZero == [][(last.cmd = "gen" /\ last.exit = 0 /\ last.args.prefix = "std" /\ last'.cmd = "diff"
                        /\ last'.args.pkgs = last.args.pkgs /\ last'.args.header = last.args.header
                        /\ last'.args.tags = last.args.tags) => last'.exit = 0]_vars
\* C19: check succeeds exactly when gen would
\* C19: check succeeds exactly when gen would - with the same tags
CheckAgreesWithGen == [][last'.cmd \in {"check", "show"} => (last'.exit = 0 <=> GenExit(last'.args.pkgs, "none", last'.args.tags) = 0)]_vars

\* simulation: print each behaviour once it reaches the history bound
EmitAtBound == MaxHist = 0 \/ Len(hist) < MaxHist \/ PrintT(<<"WALK", ToJson(hist)>>)
=============================================================================
