------------------------------- MODULE WireNames -------------------------------
(***************************************************************************)
(* Family N (property C14): one base program - a provider in another       *)
(* package returning (value, cleanup, error), a provider with cleanup and  *)
(* error taking three arguments, a provider with cleanup, a wire.Value,    *)
(* an injector with one parameter - whose nameable entities (types,        *)
(* provider functions, the injector parameter, a package-level variable,   *)
(* the other package's name and import alias) are renamed from an          *)
(* adversarial pool.  Every pair of slots receives every pair of pool      *)
(* names (all collision pairs between the name classes Wire generates and  *)
(* the classes the user controls); the abstract program - hence its wiring *)
(* and its run-time behaviour - is the same for every naming.              *)
(***************************************************************************)
EXTENDS WireFamilies

NSlots == <<"T1", "T2", "T3", "T4", "TB", "P1", "P2", "PB", "p0", "var", "pkg:b", "alias:b">>
NDefault(s) == IF s = "var" THEN "" ELSE IF s \in {"pkg:b", "alias:b"} THEN "b" ELSE s
NPool(s) ==
  CASE s \in {"T1", "T2", "T3", "T4"} -> {"Err", "Cleanup", "Cleanup2", "Context", "String", "Error", "Type", "Select", "Func", "Foo", "Foo2",
                                          "FooBar", "X1", "X1_2", "err", "cleanup", "foo", "Nil", "Bool", "Wire", "B",
                                          "U8ber", "A8rger"}     \* U8 / A8: rendered as the non-ASCII letters u-umlaut / A-umlaut
    [] s = "TB" -> {"Err", "Cleanup", "Foo", "Type", "B", "Context", "Error"}
    [] s \in {"P1", "P2"} -> {"cleanup", "cleanup2", "err", "err2", "foo", "fooBar", "Foo", "context", "x1", "b", "bFoo"}
    [] s = "PB" -> {"Cleanup", "Err", "Foo", "New", "Select"}
    [] s = "p0" -> {"err", "err2", "cleanup", "cleanup2", "_", "", "foo", "foo2", "string", "nil", "error", "x1", "context", "b", "t3", "true"}
    [] s = "var" -> {"err", "err2", "cleanup", "cleanup2", "cleanup3", "foo", "fooBar", "context", "b", "x1", "t1", "t2", "tB", "bTB"}
    [] s = "pkg:b" -> {"err", "err2", "foo", "context", "cleanup", "cleanup2", "fooBar", "t1", "@same"}      \* @same: the injector package's own name
    [] s = "alias:b" -> {"err", "foo", "ctx", "cleanup", "t2", "x1"}

\* identifiers declared at package scope of the injector package must be pairwise distinct
PkgScopeSlots == {"T1", "T2", "T3", "T4", "P1", "P2", "var", "alias:b"}
NamingOK(nm) ==
  /\ \A s1, s2 \in PkgScopeSlots : s1 # s2 /\ nm[s1] # "" => nm[s1] # nm[s2]
  /\ \A s \in PkgScopeSlots : nm[s] \notin {"Inject", "MkT1", "MkT2", "MkT3", "MkT4", "rt", "wire", "VerifDrive"}
  /\ nm["TB"] # nm["PB"]
  \* the parameter must not shadow what the injector template itself mentions
  /\ nm["p0"] \notin {nm["P1"], nm["P2"], nm["T4"], nm["alias:b"]}

NProg(nm) ==
  LET key == "N/" \o ConcatStr([i \in DOMAIN NSlots |-> IF nm[NSlots[i]] = NDefault(NSlots[i]) THEN "" ELSE NSlots[i] \o "=" \o nm[NSlots[i]] \o ";"])
  IN [Prog(key, "R", <<Tok("T1"), Tok("T2"), Tok("T3"), Tok("T4"), TokIn("TB", "b")>>,
           <<FuncIn("PB", "b", <<>>, "TB", TRUE, TRUE), Func("P1", <<"TB", "T2", "T4">>, "T1", TRUE, TRUE),
             Func("P2", <<"T3">>, "T2", TRUE, FALSE), ValueL("V4", "T4")>>, <<>>,
           <<Inj("Inject", <<Par(nm["p0"], "T3")>>, "T1", TRUE, TRUE, <<ItL(1), ItL(2), ItL(3), ItL(4)>>)>>) EXCEPT !.fam = "R"]
     @@ [naming |-> [s \in {"T1", "T2", "T3", "T4", "TB", "P1", "P2", "PB", "pkg:b", "alias:b"} |-> nm[s]],
         extravars |-> IF nm["var"] = "" THEN <<>> ELSE <<nm["var"]>>]
Base == [s \in {NSlots[i] : i \in DOMAIN NSlots} |-> NDefault(s)]
FamilyN(p) ==
  \/ p = NProg(Base)
  \/ \E i \in DOMAIN NSlots : \E n1 \in NPool(NSlots[i]) :
       LET nm1 == [Base EXCEPT ![NSlots[i]] = n1] IN
       \/ NamingOK(nm1) /\ p = NProg(nm1)
       \/ \E j \in DOMAIN NSlots : j > i /\ \E n2 \in NPool(NSlots[j]) :
            LET nm2 == [nm1 EXCEPT ![NSlots[j]] = n2] IN NamingOK(nm2) /\ p = NProg(nm2)
\* the base program with only the package-level variable named (C03 / C04: the error and cleanup variables of the generated
\* code next to live package-level variables of those names)
\* two providers of the other package, the first one can fail: the error variable must not take the other package's name
\* (the second call would then select from the error variable)
NProgTwoB(nm) ==
  LET key == "N2/" \o ConcatStr([i \in DOMAIN NSlots |-> IF nm[NSlots[i]] = NDefault(NSlots[i]) THEN "" ELSE NSlots[i] \o "=" \o nm[NSlots[i]] \o ";"])
  IN [Prog(key, "R", <<Tok("T1"), Tok("T2"), Tok("T3"), Tok("T4"), TokIn("TB", "b"), TokIn("TB2", "b")>>,
           <<FuncIn("PB", "b", <<>>, "TB", TRUE, TRUE), FuncIn("PB2", "b", <<"TB">>, "TB2", FALSE, TRUE), Func("P1", <<"TB2", "T3">>, "T1", TRUE, TRUE)>>, <<>>,
           <<Inj("Inject", <<Par(nm["p0"], "T3")>>, "T1", TRUE, TRUE, <<ItL(1), ItL(2), ItL(3)>>)>>) EXCEPT !.fam = "R"]
     @@ [naming |-> [s \in {"T1", "T2", "T3", "T4", "TB", "P1", "P2", "PB", "pkg:b", "alias:b"} |-> nm[s]],
         extravars |-> IF nm["var"] = "" THEN <<>> ELSE <<nm["var"]>>]
FamilyNTwoB(p) == \E v \in {"", "err", "err2", "cleanup"} : \E b \in {"b", "err", "err2", "err3", "cleanup", "cleanup2", "t2", "tB"} :
                    v # b /\ p = NProgTwoB([Base EXCEPT !["var"] = v, !["pkg:b"] = b, !["alias:b"] = b])
\* the base program with one slot renamed (e.g. the other package named like the injector's package, or like a generated local)
FamilyNOne(p, slot, vs) == \E v \in vs : p = NProg([Base EXCEPT ![slot] = v])
FamilyNVar(p, vs) == \E v \in vs : p = NProg([Base EXCEPT !["var"] = v])
=============================================================================
