------------------------------ MODULE WireInject ------------------------------
(***************************************************************************)
(* What a generated injector does at run time, as a state machine over     *)
(* observable events.  One action per event the instrumented program can   *)
(* emit: the injector is entered, a provider runs (and succeeds or fails), *)
(* a provider's value comes out, a provider cleanup runs, the injector     *)
(* returns, the caller invokes the aggregated cleanup.                     *)
(*                                                                         *)
(* The machine is parameterised by the *wiring* WireSem assigns to the     *)
(* program (which source feeds which consumer) - never by the plan the     *)
(* implementation computed.  Any order of provider calls that respects the *)
(* dependencies is a behaviour; everything the properties C02, C03, C04,   *)
(* C11, C12 state is a guard or an invariant here.                         *)
(*                                                                         *)
(* The same actions are used (a) by Spec below, where the environment      *)
(* chooses calls / failures nondeterministically and TLC checks the        *)
(* invariants for every program of a bounded family, and (b) by            *)
(* WireInjectTrace, where each recorded event of the real generated code   *)
(* must be a step of this machine.                                         *)
(***************************************************************************)
EXTENDS WireSem, SequencesExt

CONSTANTS CheckW,   \* enforce wiring: argument / result identity, at most once, only if needed   (C02 C10 C11 C12)
          CheckE,   \* enforce the error path: abort, zero value, nil cleanup, error identity      (C03)
          CheckC    \* enforce cleanup discipline: order, exactly once, not before invocation     (C03 C04)

VARIABLES
  cs,       \* current case: [P |-> program, inj |-> injector record, x |-> its expectation] or [none |-> TRUE]
  phase,    \* "idle" | "running" | "failed" | "returned" | "invoking" | "done" | "skip"
  args,     \* descriptions of the arguments of the current injector call
  outs,     \* provider name -> description of the value it returned in this call
  ran,      \* providers run in this call, in order
  toks,     \* provider name -> token rt issued for its run in this call
  acq,      \* providers whose cleanup is held, in acquisition order
  rel,      \* providers whose cleanup has been called, in order
  failTok,  \* "" or the error token of the provider that failed in this call
  seen,     \* canonical type -> description observed for it in this call (one value per type per call)
  consts,   \* wire.Value leaf name -> description observed (must never change between calls)
  pend,     \* provider whose value is awaited ("out" event), or ""
  calls     \* number of injector calls begun for this case

ivars == <<cs, phase, args, outs, ran, toks, acq, rel, failTok, seen, consts, pend, calls>>

EmptyF == [z \in {} |-> 0]
NilD   == [nil |-> TRUE]

P_   == cs.P
X_   == cs.x
Inj_ == cs.inj

(* ---- descriptions of zero values ---------------------------------------- *)
RECURSIVE ZeroD(_, _)
ZeroD(P, t) ==
  IF \E u \in TypesU(P) : t = Sl(u) THEN [l |-> <<>>]
  ELSE IF IsPtr(P, t) \/ IsIfaceT(P, t) THEN NilD
  ELSE IF IsStructT(P, t)
       THEN LET fs == FieldsOfS(P, t) IN
            IF fs = <<>> THEN [v |-> "struct{}"]
            ELSE [s |-> [n \in {fs[i].name : i \in DOMAIN fs} |-> ZeroD(P, FieldRec(P, t, n).type)]]
  ELSE [t |-> ""]

(* ---- wiring lookups -------------------------------------------------------- *)
W(t)     == X_.wiring[t]
HasW(t)  == t \in DOMAIN X_.wiring
RECURSIVE Canon(_)
\* a binding aliases its concrete type: one value for both
Canon(t) == IF HasW(t) /\ W(t).k = "bind" THEN Canon(W(t).conc) ELSE t

FnInfo(p) == LET i == CHOOSE i \in DOMAIN P_.leaves : P_.leaves[i].k = "func" /\ P_.leaves[i].name = p IN P_.leaves[i]
IsNeededFn(p) == p \in Range(X_.funcs)

(* ---- the value a type must have in this call, when it is determined ------- *)
\* [ok |-> TRUE, v |-> description] or [ok |-> FALSE]
RECURSIVE Known(_), StructBody(_)
\* the struct value a struct provider builds: selected fields from their sources, the rest zero
StructBody(w) ==
  IF \A i \in DOMAIN w.sel : Known(w.sel[i].t).ok
  THEN [ok |-> TRUE,
        v |-> IF w.sel = <<>> /\ w.rest = <<>> THEN [v |-> "struct{}"]
              ELSE [s |-> [n \in {w.sel[i].f : i \in DOMAIN w.sel} \cup {w.rest[i].f : i \in DOMAIN w.rest} |->
                      IF \E i \in DOMAIN w.sel : w.sel[i].f = n
                      THEN Known(w.sel[CHOOSE i \in DOMAIN w.sel : w.sel[i].f = n].t).v
                      ELSE ZeroD(P_, w.rest[CHOOSE i \in DOMAIN w.rest : w.rest[i].f = n].t)]]]
  ELSE [ok |-> FALSE]
Known(t0) ==
  LET t == Canon(t0) IN
  IF ~HasW(t) THEN [ok |-> FALSE]
  ELSE LET w == W(t) IN
  CASE w.k = "func"  -> IF w.p \in DOMAIN outs THEN [ok |-> TRUE, v |-> outs[w.p]] ELSE [ok |-> FALSE]
    [] w.k = "param" -> IF w.i \in DOMAIN args THEN [ok |-> TRUE, v |-> args[w.i]] ELSE [ok |-> FALSE]
    [] w.k = "value" -> IF w.tok # "" THEN [ok |-> TRUE, v |-> [t |-> w.tok]]            \* the expression's own token
                        ELSE IF w.p \in DOMAIN consts THEN [ok |-> TRUE, v |-> consts[w.p]] ELSE [ok |-> FALSE]
    [] w.k = "struct" ->
         IF w.ptr THEN (IF t \in DOMAIN seen THEN [ok |-> TRUE, v |-> seen[t]] ELSE [ok |-> FALSE])
         ELSE StructBody(w)
    [] w.k = "field" ->
         LET pk == Known(w.parent) IN
         IF ~pk.ok THEN [ok |-> FALSE]
         ELSE IF ~w.pptr THEN [ok |-> TRUE, v |-> pk.v.s[w.f]]
         ELSE IF w.fptr THEN [ok |-> TRUE, v |-> [p |-> pk.v.fa[w.f], e |-> pk.v.e.s[w.f]]]
         ELSE [ok |-> TRUE, v |-> pk.v.e.s[w.f]]
    [] OTHER -> [ok |-> FALSE]

(* ---- is an observed description d right for type t? ------------------------ *)
\* exact when the value is determined; structural for struct providers
\* (selected fields from their sources, all others zero); consistent with
\* every earlier observation of the same type in this call.
RECURSIVE ShapeOK(_, _)
ShapeOK(d, t0) ==
  LET t == Canon(t0) IN
  IF ~HasW(t) THEN FALSE
  ELSE LET w == W(t) k == Known(t) IN
  /\ k.ok => d = k.v
  /\ t \in DOMAIN seen => d = seen[t]
  /\ w.k = "struct" =>
       LET body == IF w.ptr THEN d.e ELSE d IN
       /\ w.ptr => ("p" \in DOMAIN d /\ "e" \in DOMAIN d)
       /\ (w.sel # <<>> \/ w.rest # <<>>) =>
            /\ "s" \in DOMAIN body
            /\ DOMAIN body.s = {w.sel[i].f : i \in DOMAIN w.sel} \cup {w.rest[i].f : i \in DOMAIN w.rest}
            /\ \A i \in DOMAIN w.sel  : ShapeOK(body.s[w.sel[i].f], w.sel[i].t)
            /\ \A i \in DOMAIN w.rest : body.s[w.rest[i].f] = ZeroD(P_, w.rest[i].t)

\* (type, description) pairs an observation reveals: itself and, through struct providers, its parts
RECURSIVE Reveals(_, _)
Reveals(d, t0) ==
  LET t == Canon(t0) IN
  IF ~HasW(t) THEN {}
  ELSE LET w == W(t) IN
  {<<t, d>>} \cup
  (IF w.k = "struct" /\ (w.sel # <<>>)
   THEN LET body == IF w.ptr THEN d.e ELSE d IN
        UNION {Reveals(body.s[w.sel[i].f], w.sel[i].t) : i \in DOMAIN w.sel}
   ELSE {})

RevealsAll(ds, ts) == UNION {Reveals(ds[i], ts[i]) : i \in DOMAIN ds}
\* remember what was observed (first observation wins; ShapeOK has checked consistency)
SeenAfter(R) == [t \in DOMAIN seen \cup {r[1] : r \in R} |->
                   IF t \in DOMAIN seen THEN seen[t] ELSE (CHOOSE r \in R : r[1] = t)[2]]
ConstsAfter(R) ==
  LET vr == {r \in R : W(r[1]).k = "value"} IN
  [n \in DOMAIN consts \cup {W(r[1]).p : r \in vr} |->
     IF n \in DOMAIN consts THEN consts[n] ELSE (CHOOSE r \in vr : W(r[1]).p = n)[2]]
\* two observations of one type inside one event must agree with each other
SelfConsistent(R) == \A r1, r2 \in R : r1[1] = r2[1] => r1[2] = r2[2]

ObsOK(ds, ts) ==
  /\ Len(ds) = Len(ts)
  /\ \A i \in DOMAIN ds : ShapeOK(ds[i], ts[i])
  /\ SelfConsistent(RevealsAll(ds, ts))

(* ---- actions ---------------------------------------------------------------- *)
StartCase(c) ==
  /\ cs' = c
  /\ phase' = "idle"
  /\ consts' = EmptyF
  /\ calls' = 0
  /\ args' = <<>> /\ outs' = EmptyF /\ ran' = <<>> /\ toks' = EmptyF /\ acq' = <<>> /\ rel' = <<>>
  /\ failTok' = "" /\ seen' = EmptyF /\ pend' = ""

\* the injector is entered with argument descriptions a
Enter(a) ==
  /\ phase \in {"idle", "done"}
  /\ Len(a) = Len(Inj_.params)
  /\ phase' = "running"
  /\ args' = a
  /\ outs' = EmptyF /\ ran' = <<>> /\ toks' = EmptyF /\ acq' = <<>> /\ rel' = <<>>
  /\ failTok' = "" /\ seen' = EmptyF /\ pend' = ""
  /\ calls' = calls + 1
  /\ UNCHANGED <<cs, consts>>

\* provider p runs with argument descriptions a and token tk; ok = it will succeed
Call(p, tk, a, ok) ==
  /\ pend = ""
  /\ \/ phase = "running"
     \/ ~CheckE /\ phase = "failed"            \* only C03 forbids calls after a failure
  /\ CheckW => /\ IsNeededFn(p)                                   \* only if the result depends on it
               /\ ~(\E i \in DOMAIN ran : ran[i] = p)              \* at most once per injector call
               /\ ObsOK(a, FnInfo(p).ins)                          \* fed by the sources of its parameter types
  /\ ~ok => HasEr(FnInfo(p))
  /\ ran' = Append(ran, p)
  /\ toks' = [n \in DOMAIN toks \cup {p} |-> IF n = p THEN tk ELSE toks[n]]
  /\ IF CheckW THEN LET R == RevealsAll(a, FnInfo(p).ins) IN seen' = SeenAfter(R) /\ consts' = ConstsAfter(R)
     ELSE UNCHANGED <<seen, consts>>
  /\ IF ok THEN /\ pend' = p
                /\ UNCHANGED <<phase, failTok>>
     ELSE /\ pend' = ""
          /\ phase' = "failed"
          /\ failTok' = IF failTok = "" THEN "E:" \o tk ELSE failTok
  /\ UNCHANGED <<cs, args, outs, acq, rel, calls>>

\* the value of the provider that just ran comes out
Out(p, v) ==
  /\ pend = p
  /\ outs' = [n \in DOMAIN outs \cup {p} |-> IF n = p THEN v ELSE outs[n]]
  /\ acq' = IF HasCl(FnInfo(p)) THEN Append(acq, p) ELSE acq
  /\ pend' = ""
  /\ UNCHANGED <<cs, phase, args, ran, toks, rel, failTok, seen, consts, calls>>

\* the cleanup closure provider p returned (for token tk) is called
Cleanup(p, tk) ==
  /\ pend = ""
  /\ CheckC => /\ phase \in {"failed", "invoking"}                 \* never before failure / invocation
               /\ Len(rel) < Len(acq)
               /\ p = acq[Len(acq) - Len(rel)]                     \* reverse acquisition order, each once
               /\ p \in DOMAIN toks /\ tk = toks[p]                \* the closure of THIS call
  /\ rel' = Append(rel, p)
  /\ UNCHANGED <<cs, phase, args, outs, ran, toks, acq, failTok, seen, consts, pend, calls>>

\* the injector returns
Return(v, zero, hasCl, clNil, hasErr, err) ==
  /\ pend = ""
  /\ hasCl = HasCl(Inj_) /\ hasErr = HasEr(Inj_)
  /\ \/ /\ phase = "failed"
        /\ CheckE => /\ zero                                       \* zero value of the result type
                     /\ hasCl => clNil                             \* nil cleanup
                     /\ err = failTok                              \* that very error
        /\ CheckC => rel = Reverse(acq)                            \* everything acquired was released
        /\ phase' = "done"
        /\ UNCHANGED <<seen, consts>>
     \/ /\ phase = "running"
        /\ err = ""
        /\ CheckW => ObsOK(<<v>>, <<Inj_.out>>)                    \* the value of the source of the result type
        /\ CheckC => /\ rel = <<>>
                     /\ hasCl => ~clNil                            \* a non-nil aggregate, even when empty
        /\ phase' = IF hasCl /\ ~clNil THEN "returned" ELSE "done"
        /\ IF CheckW THEN LET R == Reveals(v, Inj_.out) IN seen' = SeenAfter(R) /\ consts' = ConstsAfter(R)
           ELSE UNCHANGED <<seen, consts>>
  /\ UNCHANGED <<cs, args, outs, ran, toks, acq, rel, failTok, pend, calls>>

\* the caller invokes the returned cleanup
Invoke ==
  /\ phase = "returned"
  /\ phase' = "invoking"
  /\ UNCHANGED <<cs, args, outs, ran, toks, acq, rel, failTok, seen, consts, pend, calls>>
Invoked ==
  /\ phase = "invoking"
  /\ CheckC => rel = Reverse(acq)
  /\ phase' = "done"
  /\ UNCHANGED <<cs, args, outs, ran, toks, acq, rel, failTok, seen, consts, pend, calls>>

(* ---- invariants (checked exhaustively in WireInjectMC, and on every trace) --- *)
NoDupSeq(s) == \A i, j \in DOMAIN s : i # j => s[i] # s[j]
IsSubSeqOfRev(r, a) == \E k \in 0..Len(a) : r = SubSeq(Reverse(a), 1, k)

TypeOK ==
  /\ phase \in {"idle", "running", "failed", "returned", "invoking", "done", "skip"}
  /\ NoDupSeq(acq) /\ NoDupSeq(rel)
AtMostOnce == CheckW => NoDupSeq(ran)
ReleaseIsReversePrefix == CheckC => IsSubSeqOfRev(rel, acq)
NoCleanupWhileRunning  == CheckC => (phase \in {"running", "returned"} => rel = <<>>)
AllReleasedWhenDone    == CheckC => (phase = "done" /\ (failTok # "" \/ HasCl(Inj_)) => rel = Reverse(acq))
AcquiredRan == \A i \in DOMAIN acq : \E j \in DOMAIN ran : ran[j] = acq[i]
=============================================================================
