------------------------------ MODULE WireJudge ------------------------------
(***************************************************************************)
(* Judge of single-shot tool observations.  Reads the case table exported  *)
(* by TLC (program + what WireSem says Wire must do) and the observations  *)
(* recorded from the real `wire` binary, and decides for each observation  *)
(* whether it is one the semantics allows - at the grain the properties    *)
(* state (reject + diagnostic class + named type), not the exact wording   *)
(* or the order in which Wire reports several applicable errors.           *)
(***************************************************************************)
EXTENDS Naturals, Sequences, FiniteSets, TLC, Json, Functions

CONSTANTS CasesFile, ObsFile

Cases == ndJsonDeserialize(CasesFile)
Obs   == ndJsonDeserialize(ObsFile)

\* verdict for the package = all of its injectors (one failing injector
\* suppresses the output of the whole package)
PkgVerdict(e) ==
  IF \E i \in DOMAIN e : e[i].verdict = "no" THEN "no"
  ELSE IF \E i \in DOMAIN e : e[i].verdict = "free" THEN "free" ELSE "yes"

HasDiag(o, c)        == \E d \in Range(o.diags) : d.c = c
HasDiagNaming(o, c, T) == \E d \in Range(o.diags) : d.c = c /\ Range(d.types) \cap T # {}

\* the diagnostic a reason calls for (only where a property says what must be reported)
ReasonShown(o, x, r) ==
  CASE r = "ambiguous" -> HasDiagNaming(o, "ambiguous", Range(x.ambiguous))
    [] r = "missing"   -> HasDiagNaming(o, "missing", Range(x.missing))
    [] r = "cycle"     -> HasDiag(o, "cycle")
    [] r = "unused"    -> HasDiag(o, "unused")
    [] OTHER           -> TRUE

Rejected(o) == o.failed /\ ~o.wrote /\ Len(o.diags) >= 1
Accepted(o) == ~o.failed /\ o.wrote

\* gen: the observation must be a behaviour the semantics allows
GenOK(o) ==
  LET e == Cases[o.ci].expect
      v == PkgVerdict(e)
  IN /\ ~o.panic /\ ~o.hang
     /\ v = "yes"  => Accepted(o)
     /\ v = "no"   => /\ Rejected(o)
                      /\ \E i \in DOMAIN e : e[i].verdict = "no" /\ \E r \in Range(e[i].reasons) : ReasonShown(o, e[i], r)
     /\ v = "free" => (Accepted(o) \/ Rejected(o) \/ (Cases[o.ci].fam = "F" /\ ~o.failed))   \* F: exit 0 without injectors is an outcome
     /\ o.wrote => o.built # "fail"
     \* framing: generated-code marker, the !wireinject build constraint before the package clause, the package's own name
     /\ o.wrote => o.frame_ok
     \* C07: when the loop counters of the analysis are available (verif hooks), they are bounded by a polynomial in the size
     \* of the graph (the property forbids growth with the number of PATHS, not a particular algorithm)
     /\ (o.work_acyclic >= 0 /\ "workbound" \in DOMAIN Cases[o.ci]) =>
           (o.work_acyclic <= Cases[o.ci].workbound /\ o.work_solve <= Cases[o.ci].workbound)
     \* C20: a refusal carries a position inside the user's sources (family F; golden-pinned exceptions are known findings)
     /\ (Cases[o.ci].fam = "F" /\ o.failed) => \E d \in Range(o.diags) : d.pos

\* check: same verdict as gen would give, same classes (no file is ever written)
CheckOK(o) ==
  LET e == Cases[o.ci].expect
      v == PkgVerdict(e)
  IN /\ ~o.panic /\ ~o.hang /\ ~o.wrote
     /\ (v = "yes" /\ Cases[o.ci].invalidsets = <<>>) => ~o.failed
     /\ Cases[o.ci].invalidsets # <<>> => o.failed              \* every top-level set variable must be well-formed, used or not
     /\ v = "no"   => /\ o.failed /\ Len(o.diags) >= 1
                      /\ \E i \in DOMAIN e : e[i].verdict = "no" /\ \E r \in Range(e[i].reasons) : ReasonShown(o, e[i], r)
     /\ o.failed => Len(o.diags) >= 1                       \* never a silent failure
     /\ (Cases[o.ci].fam = "F" /\ o.failed) => \E d \in Range(o.diags) : d.pos
     \* C19: check fails for this package exactly when gen does (whatever the specification says about the program),
     \* unless a provider-set variable that no injector uses is ill-formed
     /\ (Cases[o.ci].invalidsets = <<>> /\ \E g \in Range(Obs) : g.ci = o.ci /\ g.cmd = "gen") =>
           (o.failed <=> (CHOOSE g \in Range(Obs) : g.ci = o.ci /\ g.cmd = "gen").failed)

\* show: the parsed listing equals what WireShow derives from the program
GroupSet(gs) == {[inputs |-> Range(g.inputs), outputs |-> Range(g.outputs)] : g \in Range(gs)}
ShowSets(ss) == {[id |-> s.id, includes |-> Range(s.includes), groups |-> GroupSet(s.groups)] : s \in Range(ss)}
ShowOK(o) ==
  LET e == Cases[o.ci].show IN
  /\ ~o.panic /\ ~o.hang /\ ~o.wrote
  /\ ShowSets(o.sets) = ShowSets(e.sets)
  /\ Range(e.injectors) \subseteq Range(o.injectors)
  /\ Range(o.injectors) \subseteq Range(e.injectors) \cup Range(e.free)
  /\ (e.invalid # <<>> \/ e.rejected # <<>>) => o.failed
  /\ (e.invalid = <<>> /\ e.rejected = <<>> /\ e.free = <<>>) => ~o.failed

\* value fidelity (C13): every injector call returns the same value, and it is the value the expression has in its home package
\* (for expressions that allocate, the pointer itself is fresh per evaluation: compare what it points to)
NoPtr(d) == IF "p" \in DOMAIN d THEN [x \in (DOMAIN d) \ {"p", "fa"} |-> d[x]] ELSE d
ValueOK(o) ==
  /\ Len(o.inj) = 2 /\ Len(o.home) = 1
  /\ o.inj[1] = o.inj[2]
  /\ IF Cases[o.ci].alloc THEN NoPtr(o.inj[1]) = NoPtr(o.home[1]) ELSE o.inj[1] = o.home[1]

\* copied declarations (C15): every non-injector declaration exactly once and in source order; the package builds with and
\* without the wireinject tag; the probe that exercises the declarations observes the same values under both builds
CopyOK(o) ==
  /\ o.declared = o.expected                  \* names of the copied top-level declarations, in order
  /\ o.built_default = "ok" /\ o.built_inject = "ok"
  /\ o.probe_default = o.probe_inject /\ Len(o.probe_default) >= 1

ObsOK(o) == IF o.cmd = "copy" THEN CopyOK(o) ELSE IF o.cmd = "gen" THEN GenOK(o) ELSE IF o.cmd = "check" THEN CheckOK(o)
            ELSE IF o.cmd = "show" THEN ShowOK(o) ELSE IF o.cmd = "value" THEN ValueOK(o) ELSE FALSE

\* one line per rejected observation, then the completion marker
ASSUME \A l \in DOMAIN Obs : ObsOK(Obs[l]) \/ PrintT(<<"BADOBS", l>>)
ASSUME PrintT(<<"JUDGED", Len(Obs)>>)
=============================================================================
