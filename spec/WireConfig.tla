------------------------------ MODULE WireConfig ------------------------------
(***************************************************************************)
(* Property C16: for fixed sources and options the generated file is a     *)
(* function of the sources and options only.  The configuration lattice    *)
(* below is everything else that varies between two runs; the judge        *)
(* accepts a set of recorded runs iff, per program, all of them produced   *)
(* the same bytes (digest), none leaked an absolute path or another        *)
(* run-specific datum, and all succeeded.                                  *)
(***************************************************************************)
EXTENDS Naturals, Sequences, FiniteSets, TLC, Json, Functions

CONSTANTS Reps          \* number of repetitions of each configuration

Layouts  == {"module", "module-vendor", "gopath", "gopath-vendor", "gopath-rootvendor"}   \* how dependencies are resolved (rootvendor: $GOPATH/src/vendor)
Locs     == {"short", "long/er/nested/path"}                           \* where the checkout lives
Invokes  == {"dot", "subdir", "dotdotdot", "importpath"}               \* working directory / pattern naming the package
Company  == {"alone", "with-others"}                                   \* other packages processed in the same invocation
Programs == {"many", "small", "values"}
\* the options are part of the "fixed sources and options": runs are compared per (program, tags)
TagOpts  == {"", "verifx"}

Config(l, loc, inv, co, tg, r) == [layout |-> l, loc |-> loc, invoke |-> inv, company |-> co, tags |-> tg, rep |-> r]
AllConfigs == {Config(l, loc, inv, co, tg, r) : l \in Layouts, loc \in Locs, inv \in Invokes, co \in Company, tg \in TagOpts, r \in 1..Reps}

VARIABLE c
Init == c \in AllConfigs
Next == UNCHANGED c
Emit == PrintT(ToJson(c))
===============================================================================
