------------------------------ MODULE WireProg ------------------------------
(***************************************************************************)
(* Abstract syntax of Wire programs.  A program is a JSON-serialisable     *)
(* record; it is the interchange format between TLC (which enumerates      *)
(* families of programs and computes what Wire must do with each, see      *)
(* WireSem) and the renderer (which turns it into real Go packages).       *)
(*                                                                         *)
(* Types are strings.  An atom is the id of a declared type ("T1", "S1",   *)
(* "I1"); "*" \o t is the pointer type, "[]" \o t the slice type.  Go type *)
(* identity is string equality here; an alias atom is never a type of its  *)
(* own: the family replaces it by its target before it builds the program  *)
(* and keeps the alias only as a spelling for the renderer.                *)
(***************************************************************************)
EXTENDS Naturals, Sequences, FiniteSets, TLC, Functions

Ptr(t) == "*" \o t
Sl(t)  == "[]" \o t

(* ---- declared types ---------------------------------------------------- *)
\* kind: "tok"    struct { Tok string } - carries the identity token at run time
\*       "struct" user struct with the listed fields
\*       "iface"  interface with one marker method M<id>() plus embedded ones
\* pkg : "a" is the injector package, "b" / "c" are library packages
\* fields : Seq([name, type, prevented])      (struct only)
\* embeds : Seq(iface id)                     (iface only)
\* impl   : Seq([iface, recv])  recv \in {"value","pointer"}  (tok/struct only):
\*          the atom has the marker method of that interface with that receiver
\* go     : free-form hint for the renderer (spelling / Go kind); no meaning here
MkAtom(id, kind, pkg, fields, embeds, impl, go) ==
  [id |-> id, kind |-> kind, pkg |-> pkg, fields |-> fields, embeds |-> embeds,
   impl |-> impl, go |-> go]
Tok(id)            == MkAtom(id, "tok", "a", <<>>, <<>>, <<>>, "")
TokIn(id, pkg)     == MkAtom(id, "tok", pkg, <<>>, <<>>, <<>>, "")
TokImpl(id, impl)  == MkAtom(id, "tok", "a", <<>>, <<>>, impl, "")
StructT(id, pkg, fields) == MkAtom(id, "struct", pkg, fields, <<>>, <<>>, "")
Iface(id, pkg, embeds)   == MkAtom(id, "iface", pkg, <<>>, embeds, <<>>, "")
\* tag: how the renderer writes the struct tag: "" none | "pre" `wire:"-"` | "pre2" `json:"-" wire:"-"`
\*      | "foreign" `hardwire:"-"` (NOT a prevention) | "other" `json:"x"`;  prevented <=> tag \in {"pre","pre2"}
Fld(name, type)          == [name |-> name, type |-> type, prevented |-> FALSE, tag |-> ""]
FldT(name, type, tag)    == [name |-> name, type |-> type, prevented |-> (tag \in {"pre", "pre2"}), tag |-> tag]
Impl(iface, recv)        == [iface |-> iface, recv |-> recv]

(* ---- leaves (things that can be passed to wire.Build / wire.NewSet) ----- *)
L0 == [k |-> "", name |-> "", pkg |-> "a",
       ins |-> <<>>, out |-> "", cl |-> FALSE, er |-> FALSE, va |-> FALSE,
       res |-> <<>>,        \* explicit result kinds (family Q); <<>> = derived from out/cl/er
       s |-> "", sel |-> <<>>, all |-> FALSE,
       iface |-> "", conc |-> "",
       parent |-> "", names |-> <<>>,
       expr |-> "", inacc |-> FALSE,
       alias |-> FALSE]     \* the renderer spells the leaf's own type through a type alias (type A_T = T): same type, other spelling
\* provider function   func name(ins...) (out [, func()] [, error])
Func(name, ins, out, cl, er) ==
  [L0 EXCEPT !.k = "func", !.name = name, !.ins = ins, !.out = out, !.cl = cl, !.er = er]
FuncIn(name, pkg, ins, out, cl, er) == [Func(name, ins, out, cl, er) EXCEPT !.pkg = pkg]
\* wire.Struct(new(s), sel...)  or wire.Struct(new(s), "*") when all
StructL(name, s, sel, all) == [L0 EXCEPT !.k = "struct", !.name = name, !.s = s, !.sel = sel, !.all = all]
\* deprecated struct-literal provider  S{}  passed as an item: all fields, tags ignored
StructLitL(name, s) == [L0 EXCEPT !.k = "structlit", !.name = name, !.s = s]
\* wire.Value(expr) of type out
ValueL(name, out) == [L0 EXCEPT !.k = "value", !.name = name, !.out = out]
\* wire.InterfaceValue(new(iface), expr of type conc)
IValueL(name, iface, conc) == [L0 EXCEPT !.k = "ivalue", !.name = name, !.iface = iface, !.conc = conc]
\* wire.Bind(new(iface), new(conc))
BindL(name, iface, conc) == [L0 EXCEPT !.k = "bind", !.name = name, !.iface = iface, !.conc = conc]
\* wire.FieldsOf(new(parent), names...)
FieldsL(name, parent, names) == [L0 EXCEPT !.k = "fields", !.name = name, !.parent = parent, !.names = names]

(* ---- items, sets, injectors ------------------------------------------- *)
ItL(i) == [k |-> "leaf", i |-> i]
ItS(i) == [k |-> "set",  i |-> i]
Items(leafIdxs) == [j \in DOMAIN leafIdxs |-> ItL(leafIdxs[j])]
\* grp: sets of one package with the same non-empty grp are declared in ONE var spec (var A, B = NewSet(..), NewSet(..))
\*      "=alias": var Name = othersSet (a plain re-export); "=inline": no variable at all - the wire.NewSet(...) call is written
\*      in place wherever the set is listed (it has no name that wire show / wire check could report)
SetD(name, pkg, items) == [name |-> name, pkg |-> pkg, items |-> items, grp |-> ""]
InlineSet(s) == s.grp = "=inline"
Par(name, type) == [name |-> name, type |-> type]
\* res: explicit result kinds (family Q) or <<>>; va: variadic last parameter
Inj(name, params, out, cl, er, items) ==
  [name |-> name, pkg |-> "a", params |-> params, va |-> FALSE, out |-> out,
   cl |-> cl, er |-> er, res |-> <<>>, items |-> items, file |-> 1,       \* file: which injector file of the package declares it
   form |-> "func"]       \* "func" | "generic" (the template has a type parameter) | "method" (the template is a method): undocumented shapes

Prog(key, fam, atoms, leaves, sets, injs) ==
  [key |-> key, fam |-> fam, atoms |-> atoms, leaves |-> leaves, sets |-> sets, injs |-> injs]

(* ---- small helpers used by the families -------------------------------- *)
TN(i) == "T" \o ToString(i)
PN(i) == "P" \o ToString(i)
RECURSIVE SeqOfSet(_)
\* ascending enumeration of a finite set of naturals
SeqOfSet(S) == IF S = {} THEN <<>>
               ELSE LET m == CHOOSE x \in S : \A y \in S : x <= y
                    IN <<m>> \o SeqOfSet(S \ {m})
RECURSIVE SumSeq(_)
SumSeq(s) == IF s = <<>> THEN 0 ELSE Head(s) + SumSeq(Tail(s))
=============================================================================
