------------------------------- MODULE WireSem -------------------------------
(***************************************************************************)
(* Declarative semantics of Wire programs: what a build set provides, when *)
(* it is ambiguous / cyclic / incomplete, which direct items are used,     *)
(* which source feeds which consumer.  Written from the documentation and  *)
(* the property statements, NOT from the code: it is the reference the     *)
(* implementation-shaped models (WireAnalyze, WireInject) refine and the   *)
(* judge specs compare real observations with.                             *)
(***************************************************************************)
EXTENDS WireProg

(* ---- types -------------------------------------------------------------- *)
AtomIds(P)   == {P.atoms[i].id : i \in DOMAIN P.atoms}
AtomOf(P, a) == P.atoms[CHOOSE i \in DOMAIN P.atoms : P.atoms[i].id = a]
IsAtom(P, t) == t \in AtomIds(P)
Types1(P) == AtomIds(P) \cup {Ptr(a) : a \in AtomIds(P)} \cup {Sl(a) : a \in AtomIds(P)}
TypesU(P) == Types1(P) \cup {Ptr(t) : t \in Types1(P)} \cup {Sl(t) : t \in Types1(P)}
IsPtr(P, t)  == \E u \in TypesU(P) : t = Ptr(u)
Elem(P, t)   == CHOOSE u \in TypesU(P) : t = Ptr(u)
IsKind(P, t, k) == IsAtom(P, t) /\ AtomOf(P, t).kind = k
IsIfaceT(P, t)  == IsKind(P, t, "iface")
IsStructT(P, t) == IsKind(P, t, "struct")

FieldsOfS(P, s)    == AtomOf(P, s).fields
HasField(P, s, n)  == \E i \in DOMAIN FieldsOfS(P, s) : FieldsOfS(P, s)[i].name = n
FieldRec(P, s, n)  == LET fs == FieldsOfS(P, s) IN fs[CHOOSE i \in DOMAIN fs : fs[i].name = n]

(* ---- interfaces: method-set rule ---------------------------------------- *)
RECURSIVE IfClosure(_, _)
\* the interface ids whose marker methods interface I requires (itself and its embeds)
\* (an interface whose go hint is "noown" has no method of its own: only what it embeds)
IfClosure(P, I) == (IF AtomOf(P, I).go = "noown" THEN {} ELSE {I}) \cup UNION {IfClosure(P, J) : J \in Range(AtomOf(P, I).embeds)}
\* marker methods in the method set of type t
MethodsOf(P, t) ==
  IF IsIfaceT(P, t) THEN IfClosure(P, t)
  ELSE IF IsAtom(P, t) THEN {m.iface : m \in {x \in Range(AtomOf(P, t).impl) : x.recv = "value"}}
  ELSE IF IsPtr(P, t) /\ IsAtom(P, Elem(P, t)) /\ ~IsIfaceT(P, Elem(P, t))
       THEN {m.iface : m \in Range(AtomOf(P, Elem(P, t)).impl)}
  ELSE {}
Implements(P, t, I) == IsIfaceT(P, I) /\ IfClosure(P, I) \subseteq MethodsOf(P, t)

(* ---- result-list rule (provider functions and injectors) ---------------- *)
\* kinds: "value" | "error" | "cleanup" (= func()) | "namedfunc" (type F func()) |
\*        "otherfunc" (func() int) | "erralias" (type E = error) | "errlike" (named iface with Error())
IsErrK(k) == k \in {"error", "erralias"}
ResOK(res) ==
  \/ Len(res) = 1 /\ res[1] # "none"          \* <<"none">> stands for an empty result list
  \/ Len(res) = 2 /\ (IsErrK(res[2]) \/ res[2] = "cleanup")
  \/ Len(res) = 3 /\ res[2] = "cleanup" /\ IsErrK(res[3])
ResHasCl(res) == Len(res) \in {2, 3} /\ res[2] = "cleanup"
ResHasEr(res) == (Len(res) = 2 /\ IsErrK(res[2])) \/ (Len(res) = 3 /\ IsErrK(res[3]))
DerivedRes(cl, er) == <<"value">> \o (IF cl THEN <<"cleanup">> ELSE <<>>) \o (IF er THEN <<"error">> ELSE <<>>)
ResOf(x) == IF x.res = <<>> THEN DerivedRes(x.cl, x.er) ELSE x.res
HasCl(x) == ResHasCl(ResOf(x))
HasEr(x) == ResHasEr(ResOf(x))

NoDup(s) == \A i, j \in DOMAIN s : i # j => s[i] # s[j]

(* ---- leaves -------------------------------------------------------------- *)
StructBase(P, t) == IF IsPtr(P, t) THEN Elem(P, t) ELSE t
\* names a wire.Struct leaf selects, in order
SelNames(P, l) ==
  IF l.k = "structlit" THEN [i \in DOMAIN FieldsOfS(P, l.s) |-> FieldsOfS(P, l.s)[i].name]
  ELSE IF l.all THEN LET fs == FieldsOfS(P, l.s)
                    keep == SelectSeq(fs, LAMBDA f : ~f.prevented)
                IN [i \in DOMAIN keep |-> keep[i].name]
  ELSE l.sel
NameOK(P, s, n) == HasField(P, s, n) /\ ~FieldRec(P, s, n).prevented
SelTypes(P, l) == LET ns == SelNames(P, l) IN [i \in DOMAIN ns |-> FieldRec(P, l.s, ns[i]).type]

FieldOuts(P, l, n) ==
  LET ft == FieldRec(P, StructBase(P, l.parent), n).type
  IN IF IsPtr(P, l.parent) THEN {ft, Ptr(ft)} ELSE {ft}

\* is the leaf well-formed by itself (signature / field-name / implements rules)?
LeafOK(P, l) ==
  CASE l.k = "func"   -> ResOK(ResOf(l)) /\ NoDup(l.ins)
    [] l.k = "struct" -> LET namesOK == l.all \/ \A i \in DOMAIN l.sel : NameOK(P, l.s, l.sel[i])
                         IN IsStructT(P, l.s) /\ namesOK /\ NoDup(SelTypes(P, l))
    [] l.k = "structlit" -> IsStructT(P, l.s) /\ NoDup(SelTypes(P, l))
    [] l.k = "value"  -> ~IsIfaceT(P, l.out)
    [] l.k = "ivalue" -> Implements(P, l.conc, l.iface)
    [] l.k = "bind"   -> l.conc # l.iface /\ Implements(P, l.conc, l.iface)
    [] l.k = "fields" -> /\ IsStructT(P, StructBase(P, l.parent))
                         /\ Len(l.names) >= 1
                         /\ \A i \in DOMAIN l.names : NameOK(P, StructBase(P, l.parent), l.names[i])
    [] OTHER -> FALSE

LeafOuts(P, l) ==
  CASE l.k = "func"   -> {l.out}
    [] l.k \in {"struct", "structlit"} -> {l.s, Ptr(l.s)}
    [] l.k = "value"  -> {l.out}
    [] l.k = "ivalue" -> {l.iface}
    [] l.k = "bind"   -> {l.iface}
    [] l.k = "fields" -> UNION {FieldOuts(P, l, l.names[i]) : i \in DOMAIN l.names}
    [] OTHER -> {}

(* ---- sets: what a list of items provides -------------------------------- *)
\* A *context* is an item list plus the injector parameters visible there
\* (parameters only exist at the wire.Build level).
RECURSIVE ItemsProvided(_, _), ItemsLeavesOK(_, _)
ItemOuts(P, it) == IF it.k = "leaf" THEN LeafOuts(P, P.leaves[it.i])
                   ELSE ItemsProvided(P, P.sets[it.i].items)
ItemsProvided(P, items) == UNION {ItemOuts(P, items[j]) : j \in DOMAIN items}
\* every leaf reachable is well-formed (so LeafOuts is meaningful)
ItemsLeavesOK(P, items) ==
  \A j \in DOMAIN items :
    IF items[j].k = "leaf" THEN LeafOK(P, P.leaves[items[j].i])
    ELSE ItemsLeavesOK(P, P.sets[items[j].i].items)

ParamTypes(params) == {params[i].type : i \in DOMAIN params}
Provided(P, items, params) == ItemsProvided(P, items) \cup ParamTypes(params)

\* number of sources item `it` contributes for type t (a set reached along
\* two paths is two items, hence two sources; a FieldsOf leaf is one source
\* per listed name)
ItemSrcCount(P, it, t) ==
  IF it.k = "set" THEN (IF t \in ItemOuts(P, it) THEN 1 ELSE 0)
  ELSE LET l == P.leaves[it.i] IN
       IF l.k = "fields" THEN Cardinality({n \in DOMAIN l.names : t \in FieldOuts(P, l, l.names[n])})
       ELSE IF t \in LeafOuts(P, l) THEN 1 ELSE 0
SrcCount(P, items, params, t) ==
  SumSeq([j \in DOMAIN items |-> ItemSrcCount(P, items[j], t)])
  + Cardinality({i \in DOMAIN params : params[i].type = t})
AmbiguousTypes(P, items, params) ==
  {t \in Provided(P, items, params) : SrcCount(P, items, params, t) >= 2}

\* bindings written directly in this item list must have their concrete
\* type provided by this very list (any other item, nested set or parameter)
DirectBinds(P, items) == {j \in DOMAIN items : items[j].k = "leaf" /\ P.leaves[items[j].i].k = "bind"}
NonBindProvided(P, items, params) ==
  UNION {ItemOuts(P, items[j]) : j \in (DOMAIN items) \ DirectBinds(P, items)} \cup ParamTypes(params)
BindMissingConcrete(P, items, params) ==
  {P.leaves[items[j].i].conc : j \in DirectBinds(P, items)} \ NonBindProvided(P, items, params)

(* ---- resolution: the single source of a type ----------------------------- *)
\* Only meaningful in a context that is unambiguous.
\* Result: [k |-> "param", i |-> index, n |-> 0]
\*       | [k |-> "leaf",  i |-> leaf index, n |-> index into names (fields leaf) or 0]
RECURSIVE UltSrc(_, _, _, _)
UltSrc(P, items, params, t) ==
  IF t \in ParamTypes(params)
  THEN [k |-> "param", i |-> CHOOSE i \in DOMAIN params : params[i].type = t, n |-> 0]
  ELSE LET j == CHOOSE j \in DOMAIN items : ItemSrcCount(P, items[j], t) >= 1 IN
       IF items[j].k = "set" THEN UltSrc(P, P.sets[items[j].i].items, <<>>, t)
       ELSE LET l == P.leaves[items[j].i] IN
            [k |-> "leaf", i |-> items[j].i,
             n |-> IF l.k = "fields" THEN CHOOSE n \in DOMAIN l.names : t \in FieldOuts(P, l, l.names[n]) ELSE 0]
\* index of the direct item that supplies t at this level (0 = a parameter)
FirstSrc(P, items, params, t) ==
  IF t \in ParamTypes(params) THEN 0
  ELSE CHOOSE j \in DOMAIN items : ItemSrcCount(P, items[j], t) >= 1

\* what must be available to obtain t, in consumer order
DepSeq(P, items, params, t) ==
  LET u == UltSrc(P, items, params, t) IN
  IF u.k = "param" THEN <<>>
  ELSE LET l == P.leaves[u.i] IN
    CASE l.k = "func"   -> l.ins
      [] l.k \in {"struct", "structlit"} -> SelTypes(P, l)
      [] l.k = "fields" -> <<l.parent>>
      [] l.k = "bind"   -> <<l.conc>>
      [] OTHER          -> <<>>
DepSet(P, items, params, t) == Range(DepSeq(P, items, params, t))

(* ---- cycles -------------------------------------------------------------- *)
RECURSIVE ReachN(_, _, _)
\* types reachable from the frontier F by one or more dependency edges that stay inside provided types;
\* dep: provided type -> set of types it needs
ReachN(dep, F, acc) ==
  LET nxt  == UNION {dep[t] : t \in F \cap DOMAIN dep}
      new  == nxt \ acc
  IN IF new = {} THEN acc ELSE ReachN(dep, new, acc \cup new)
DepTable(P, items, params) ==
  LET prov == Provided(P, items, params)
      tab  == {<<t, DepSet(P, items, params, t)>> : t \in prov}      \* a set of pairs is evaluated once
  IN [t \in prov |-> (CHOOSE pr \in tab : pr[1] = t)[2]]
ReachPlus(dep, t) == ReachN(dep, {t}, {})
CyclicTypes(P, items, params) ==
  LET dep == DepTable(P, items, params) IN {t \in DOMAIN dep : t \in ReachPlus(dep, t)}

(* ---- validity of a set level, by stage ----------------------------------- *)
RECURSIVE LevelReasons(_, _, _)
LevelReasons(P, items, params) ==
  LET sub  == UNION {LevelReasons(P, P.sets[items[j].i].items, <<>>) : j \in {x \in DOMAIN items : items[x].k = "set"}}
      bad  == {j \in DOMAIN items : items[j].k = "leaf" /\ ~LeafOK(P, P.leaves[items[j].i])}
      stA  == sub \cup (IF bad # {} THEN {"sig"} ELSE {})
  IN IF stA # {} THEN stA
     ELSE LET stB == (IF AmbiguousTypes(P, items, params) # {} THEN {"ambiguous"} ELSE {})
                     \cup (IF BindMissingConcrete(P, items, params) # {} THEN {"bind-concrete"} ELSE {})
          IN IF stB # {} THEN stB
             ELSE IF CyclicTypes(P, items, params) # {} THEN {"cycle"} ELSE {}

(* ---- an injector ---------------------------------------------------------- *)
Needed(P, inj)  == ReachN(DepTable(P, inj.items, inj.params), {inj.out}, {inj.out})
Missing(P, inj) == Needed(P, inj) \ Provided(P, inj.items, inj.params)

\* leaves (by index) the result transitively depends on
NeededLeafSrcs(P, inj) ==
  {UltSrc(P, inj.items, inj.params, t) : t \in Needed(P, inj) \cap Provided(P, inj.items, inj.params)}
NeededFuncs(P, inj) == {u.i : u \in {x \in NeededLeafSrcs(P, inj) : x.k = "leaf" /\ P.leaves[x.i].k = "func"}}
NeedsErr(P, inj) == \E i \in NeededFuncs(P, inj) : HasEr(P.leaves[i])
NeedsCl(P, inj)  == \E i \in NeededFuncs(P, inj) : HasCl(P.leaves[i])
NeedsInaccessibleValue(P, inj) ==
  \E u \in NeededLeafSrcs(P, inj) : u.k = "leaf" /\ P.leaves[u.i].k \in {"value", "ivalue"} /\ P.leaves[u.i].inacc

\* direct Build items: used = supplies (at this level) some needed type
UsedTypesOfItem(P, inj, j) ==
  {t \in Needed(P, inj) \cap Provided(P, inj.items, inj.params) : FirstSrc(P, inj.items, inj.params, t) = j}
\* a FieldsOf item is one source per listed name
FieldNameUsed(P, inj, j, n) ==
  LET l == P.leaves[inj.items[j].i] IN FieldOuts(P, l, l.names[n]) \cap Needed(P, inj) # {}
IsFieldsItem(P, inj, j) == inj.items[j].k = "leaf" /\ P.leaves[inj.items[j].i].k = "fields"
\* certainly unused: nothing of it is used
UnusedItems(P, inj) ==
  {j \in DOMAIN inj.items :
     IF IsFieldsItem(P, inj, j)
     THEN \A n \in DOMAIN P.leaves[inj.items[j].i].names : ~FieldNameUsed(P, inj, j, n)
     ELSE UsedTypesOfItem(P, inj, j) = {}}
\* FieldsOf items of which only some names are used (the statement leaves the verdict open)
PartialFieldItems(P, inj) ==
  {j \in DOMAIN inj.items :
     /\ IsFieldsItem(P, inj, j)
     /\ \E n \in DOMAIN P.leaves[inj.items[j].i].names : FieldNameUsed(P, inj, j, n)
     /\ \E n \in DOMAIN P.leaves[inj.items[j].i].names : ~FieldNameUsed(P, inj, j, n)}

\* a struct provider that must set an unexported field of a struct declared in another package than the injector's:
\* the generated literal cannot name that field.  The documentation does not say whether Wire refuses or skips it;
\* C01 only demands that what is reported as success compiles, so the verdict is left open ("free").
IsExportedName(n) == \E c \in {"A", "B", "C", "D", "E", "F", "G", "X", "Y", "Z"} : \E rest \in {"", "1", "2"} : n = c \o rest
ForeignUnexported(P, inj) ==
  \E u \in NeededLeafSrcs(P, inj) :
    /\ u.k = "leaf" /\ P.leaves[u.i].k \in {"struct", "structlit"}
    /\ AtomOf(P, P.leaves[u.i].s).pkg # inj.pkg
    /\ \E i \in DOMAIN SelNames(P, P.leaves[u.i]) : ~IsExportedName(SelNames(P, P.leaves[u.i])[i])

InjSigOK(inj) == ResOK(ResOf(inj))

\* Why Wire must refuse the injector; {} = it must accept.
Reasons(P, inj) ==
  IF ~InjSigOK(inj) THEN {"sig"}
  ELSE LET lv == LevelReasons(P, inj.items, inj.params) IN
  IF lv # {} THEN lv
  ELSE IF Missing(P, inj) # {} THEN {"missing"}
  ELSE (IF UnusedItems(P, inj) # {} THEN {"unused"} ELSE {})
       \cup (IF NeedsErr(P, inj) /\ ~HasEr(inj) THEN {"need-err"} ELSE {})
       \cup (IF NeedsCl(P, inj) /\ ~HasCl(inj) THEN {"need-cleanup"} ELSE {})
       \cup (IF NeedsInaccessibleValue(P, inj) THEN {"value-access"} ELSE {})
\* "yes" | "no" | "free" (the property texts do not determine the outcome)
Verdict(P, inj) ==
  LET r == Reasons(P, inj) IN
  IF r # {} THEN "no"
  \* an injector template that is a method or has type parameters is not a documented form: Wire may refuse it, but what it
  \* reports as success must still compile and implement the template (C01)
  ELSE IF PartialFieldItems(P, inj) # {} \/ ForeignUnexported(P, inj) \/ inj.form # "func" THEN "free" ELSE "yes"
Accept(P, inj) == Verdict(P, inj) = "yes"

(* ---- wiring: which source feeds which consumer ---------------------------- *)
\* descriptor of the source of type t for the run-time judge
ZeroKind(P, t) == IF IsPtr(P, t) \/ IsIfaceT(P, t) THEN "nil"
                  ELSE IF IsStructT(P, t) THEN "struct" ELSE "tok"
SrcDesc(P, inj, t) ==
  LET u == UltSrc(P, inj.items, inj.params, t) IN
  IF u.k = "param" THEN [k |-> "param", i |-> u.i]
  ELSE LET l == P.leaves[u.i] IN
    CASE l.k = "func"   -> [k |-> "func", p |-> l.name]
      [] l.k \in {"struct", "structlit"} -> [k |-> "struct", p |-> l.name, s |-> l.s, ptr |-> (t = Ptr(l.s)),
                            sel |-> LET ns == SelNames(P, l) IN [i \in DOMAIN ns |-> [f |-> ns[i], t |-> FieldRec(P, l.s, ns[i]).type]],
                            rest |-> LET fs == FieldsOfS(P, l.s)
                                         un == SelectSeq(fs, LAMBDA f : \A i \in DOMAIN SelNames(P, l) : SelNames(P, l)[i] # f.name)
                                     IN [i \in DOMAIN un |-> [f |-> un[i].name, t |-> un[i].type]]]
      [] l.k = "fields" -> [k |-> "field", p |-> l.name, parent |-> l.parent, f |-> l.names[u.n],
                            pptr |-> IsPtr(P, l.parent),
                            fptr |-> (IsPtr(P, l.parent) /\ t = Ptr(FieldRec(P, StructBase(P, l.parent), l.names[u.n]).type))]
      [] l.k = "bind"   -> [k |-> "bind", p |-> l.name, conc |-> l.conc]
      \* tok: the token the rendered expression carries when the specification determines it (a plain token type whose
      \* expression is the standard literal or a package-level variable holding it); "" = known only by observation
      [] l.k = "value"  -> [k |-> "value", p |-> l.name,
                            tok |-> IF IsKind(P, t, "tok") /\ (l.expr = "" \/ SubSeq(l.expr, 1, 5) = "@var:") THEN "V:" \o l.name ELSE ""]
      [] l.k = "ivalue" -> [k |-> "value", p |-> l.name, tok |-> ""]
      [] OTHER -> [k |-> "?"]
Wiring(P, inj) ==
  [t \in Needed(P, inj) \cap Provided(P, inj.items, inj.params) |-> SrcDesc(P, inj, t)]
=============================================================================
