------------------------------- MODULE WireShow -------------------------------
(***************************************************************************)
(* What `wire show` must print for a program (property C19): each          *)
(* top-level provider set with the named sets it includes (transitively),  *)
(* every type the set can provide grouped under exactly the set of types   *)
(* that must be supplied from outside to obtain it, and the injectors.     *)
(***************************************************************************)
EXTENDS WireFamilies

SetId(P, j) == P.sets[j].pkg \o "." \o P.sets[j].name
RECURSIVE Includes(_, _)
Includes(P, items) ==
  UNION {(IF InlineSet(P.sets[items[k].i]) THEN {} ELSE {SetId(P, items[k].i)}) \cup Includes(P, P.sets[items[k].i].items)
           : k \in {x \in DOMAIN items : items[x].k = "set"}}

\* types outside the set that t transitively needs
ExtInputs(P, items, t) ==
  LET dep == DepTable(P, items, <<>>) IN ReachN(dep, {t}, {}) \ DOMAIN dep
ShowGroups(P, items) ==
  LET prov == ItemsProvided(P, items)
      tab  == {<<t, ExtInputs(P, items, t)>> : t \in prov}
  IN {[inputs |-> I, outputs |-> {pr[1] : pr \in {x \in tab : x[2] = I}}] : I \in {pr[2] : pr \in tab}}

SetValid(P, j) == LevelReasons(P, P.sets[j].items, <<>>) = {}
ShowExpect(P) ==
  [sets |-> {[id |-> SetId(P, j), includes |-> Includes(P, P.sets[j].items), groups |-> ShowGroups(P, P.sets[j].items)]
               : j \in {x \in DOMAIN P.sets : SetValid(P, x) /\ ~InlineSet(P.sets[x])}},
   invalid |-> {SetId(P, j) : j \in {x \in DOMAIN P.sets : ~SetValid(P, x) /\ ~InlineSet(P.sets[x])}},
   injectors |-> {P.injs[i].name : i \in {x \in DOMAIN P.injs : Verdict(P, P.injs[x]) = "yes"}},
   rejected  |-> {P.injs[i].name : i \in {x \in DOMAIN P.injs : Verdict(P, P.injs[x]) = "no"}},
   free      |-> {P.injs[i].name : i \in {x \in DOMAIN P.injs : Verdict(P, P.injs[x]) = "free"}}]

CaseShow(P) == Case(P) @@ [show |-> ShowExpect(P)]
=============================================================================
