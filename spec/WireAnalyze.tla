------------------------------ MODULE WireAnalyze ------------------------------
(***************************************************************************)
(* Wire's analysis as the code does it (internal/wire/analyze.go), one     *)
(* action per loop iteration, state named after the real variables:        *)
(*   buildProviderMap  args -> imports -> providers -> values -> fields    *)
(*                     -> bindings, with its early returns                 *)
(*   verifyAcyclic     roots, SHARED visited (marked at pop), stack of     *)
(*                     trails                                              *)
(*   solve             stack of frames, index: type -> step | abort,       *)
(*                     calls, used                                         *)
(*   verifyArgsUsed, and the needs-error / needs-cleanup check of inject   *)
(* Deliberately modelled as written, including what looks fragile (one     *)
(* visited set shared by all roots; map iteration order of imported sets,  *)
(* which is a free choice here; roots in any order).  TLC checks that this *)
(* machine REFINES the declarative semantics WireSem for every program of  *)
(* a bounded family, that its work is linear in the size of the graph, and *)
(* that it terminates.                                                     *)
(***************************************************************************)
EXTENDS WireSem, SequencesExt, Json

CONSTANTS CasesFile,      \* programs (with WireSem's expectations) exported by TLC
          FreeRootOrder   \* TRUE: the cycle search may take its roots in any order; FALSE: in a fixed order

Cases == ndJsonDeserialize(CasesFile)

VARIABLES
  P, inj,            \* the program and the injector being analysed
  levels, li,        \* the set levels to build (reachable sets in dependency order, then the wire.Build level), index of the current one
  pc,                \* program counter
  done,              \* set index (0 = the Build level) -> [pm, ok]: provider maps of finished levels
  pm, sm,            \* providerMap: type -> entry;  srcMap: type -> source at THIS level
  mapErrs,           \* error classes collected by buildProviderMap at this level
  cur, impKeys,      \* cursor into the current phase; keys of the imported map still to merge
  roots, visited, stk, cyc, pops, tpops,  \* verifyAcyclic (pops: this level; tpops: all finished levels)
  sstk, index, calls, used, miss, spops,  \* solve
  verdict            \* "" while running, then "accept" or the class of the first error stage
vars == <<P, inj, levels, li, pc, done, pm, sm, mapErrs, cur, impKeys, roots, visited, stk, cyc, pops, tpops, sstk, index, calls, used, miss, spops, verdict>>

EmptyF == [z \in {} |-> 0]
Lvl == levels[li]
LItems == Lvl.items
LParams == Lvl.params
Put(f, k, v) == [x \in DOMAIN f \cup {k} |-> IF x = k THEN v ELSE f[x]]

(* ---- levels --------------------------------------------------------------- *)
RECURSIVE ReachSets(_, _)
ReachSets(p, items) == UNION {{items[j].i} \cup ReachSets(p, p.sets[items[j].i].items) : j \in {x \in DOMAIN items : items[x].k = "set"}}
LevelsOf(p, in) ==
  LET rs == SeqOfSet(ReachSets(p, in.items))
  IN [k \in DOMAIN rs |-> [set |-> rs[k], items |-> p.sets[rs[k]].items, params |-> <<>>]]
     \o <<[set |-> 0, items |-> in.items, params |-> in.params]>>

\* entries: what a provided type is backed by
EArg(t, i)          == [t |-> t, k |-> "arg", i |-> i, n |-> 0]
ELeaf(t, kind, i, n) == [t |-> t, k |-> kind, i |-> i, n |-> n]
\* source at this level: a direct item (with the field-name index for FieldsOf items) or an argument
SArg        == [j |-> 0, n |-> 0]
SItem(j, n) == [j |-> j, n |-> n]

\* the direct items of each phase, in argument order
IdxOf(kinds) == SelectSeq([j \in DOMAIN LItems |-> j], LAMBDA j : LItems[j].k = "leaf" /\ P.leaves[LItems[j].i].k \in kinds)
ImportIdx == SelectSeq([j \in DOMAIN LItems |-> j], LAMBDA j : LItems[j].k = "set")
\* (output type, item index, leaf index, name index) sequences per phase
ProviderOuts ==
  LET ix == IdxOf({"func", "struct", "structlit"}) IN
  FlattenSeq([a \in DOMAIN ix |-> LET l == P.leaves[LItems[ix[a]].i] IN
     IF l.k = "func" THEN <<[t |-> l.out, j |-> ix[a], i |-> LItems[ix[a]].i, n |-> 0, k |-> "func"]>>
     ELSE <<[t |-> l.s, j |-> ix[a], i |-> LItems[ix[a]].i, n |-> 0, k |-> "struct"], [t |-> Ptr(l.s), j |-> ix[a], i |-> LItems[ix[a]].i, n |-> 0, k |-> "struct"]>>])
ValueOuts ==
  LET ix == IdxOf({"value", "ivalue"}) IN
  [a \in DOMAIN ix |-> LET l == P.leaves[LItems[ix[a]].i] IN
     [t |-> IF l.k = "value" THEN l.out ELSE l.iface, j |-> ix[a], i |-> LItems[ix[a]].i, n |-> 0, k |-> "value"]]
FieldOutsSeq ==
  LET ix == IdxOf({"fields"}) IN
  FlattenSeq([a \in DOMAIN ix |-> LET l == P.leaves[LItems[ix[a]].i] IN
     FlattenSeq([n \in DOMAIN l.names |->
        LET ft == FieldRec(P, StructBase(P, l.parent), l.names[n]).type IN
        <<[t |-> ft, j |-> ix[a], i |-> LItems[ix[a]].i, n |-> n, k |-> "field"]>>
        \o (IF IsPtr(P, l.parent) THEN <<[t |-> Ptr(ft), j |-> ix[a], i |-> LItems[ix[a]].i, n |-> n, k |-> "field"]>> ELSE <<>>)])])
BindSeq == LET ix == IdxOf({"bind"}) IN [a \in DOMAIN ix |-> [j |-> ix[a], i |-> LItems[ix[a]].i]]

(* ---- buildProviderMap ------------------------------------------------------ *)
Init ==
  /\ \E c \in DOMAIN Cases : \E k \in DOMAIN Cases[c].prog.injs :
       /\ InjSigOK(Cases[c].prog.injs[k]) /\ ItemsLeavesOK(Cases[c].prog, Cases[c].prog.injs[k].items)     \* the front end is not part of this model
       /\ P = Cases[c].prog /\ inj = Cases[c].prog.injs[k]
       /\ levels = LevelsOf(Cases[c].prog, Cases[c].prog.injs[k])
  /\ li = 1 /\ pc = "args" /\ done = EmptyF
  /\ pm = EmptyF /\ sm = EmptyF /\ mapErrs = {} /\ cur = 1 /\ impKeys = {}
  /\ roots = <<>> /\ visited = {} /\ stk = <<>> /\ cyc = FALSE /\ pops = 0 /\ tpops = 0
  /\ sstk = <<>> /\ index = EmptyF /\ calls = <<>> /\ used = {} /\ miss = {} /\ spops = 0
  /\ verdict = ""

UNCH_A == UNCHANGED <<roots, visited, stk, cyc, pops, tpops>>
UNCH_S == UNCHANGED <<sstk, index, calls, used, miss, spops>>
UNCH_L == UNCHANGED <<P, inj, levels, li, done>>

\* insert t -> entry unless t is already provided (then: multiple bindings)
Insert(t, e, s) ==
  IF t \in DOMAIN sm THEN mapErrs' = mapErrs \cup {"ambiguous"} /\ UNCHANGED <<pm, sm>>
  ELSE pm' = Put(pm, t, e) /\ sm' = Put(sm, t, s) /\ UNCHANGED mapErrs

MapArg ==
  /\ pc = "args"
  /\ IF cur <= Len(LParams)
     THEN Insert(LParams[cur].type, EArg(LParams[cur].type, cur), SArg) /\ cur' = cur + 1 /\ UNCHANGED <<pc, impKeys>>
     ELSE pc' = "imports" /\ cur' = 1 /\ impKeys' = {} /\ UNCHANGED <<pm, sm, mapErrs>>
  /\ UNCH_L /\ UNCH_A /\ UNCH_S /\ UNCHANGED verdict

\* imports: for each imported set, iterate its provider map in ANY order
ImpMap(a) == done[LItems[ImportIdx[a]].i].pm
MapImportNext ==
  /\ pc = "imports" /\ impKeys = {}
  /\ IF cur <= Len(ImportIdx)
     THEN IF DOMAIN ImpMap(cur) = {} THEN cur' = cur + 1 /\ UNCHANGED <<impKeys, pc>>
          ELSE impKeys' = DOMAIN ImpMap(cur) /\ UNCHANGED <<cur, pc>>
     ELSE /\ cur' = 1 /\ UNCHANGED impKeys
          /\ pc' = IF mapErrs # {} THEN "mapfail" ELSE "providers"        \* early return after args + imports
  /\ UNCHANGED <<pm, sm, mapErrs>>
  /\ UNCH_L /\ UNCH_A /\ UNCH_S /\ UNCHANGED verdict
MapImportKey ==
  /\ pc = "imports" /\ impKeys # {}
  /\ \E t \in impKeys :
       /\ Insert(t, ImpMap(cur)[t], SItem(ImportIdx[cur], 0))
       /\ impKeys' = impKeys \ {t}
       /\ cur' = IF impKeys' = {} THEN cur + 1 ELSE cur
  /\ UNCHANGED pc /\ UNCH_L /\ UNCH_A /\ UNCH_S /\ UNCHANGED verdict

\* providers, values, fields: one insertion per step, in order
PhaseSeq(ph) == CASE ph = "providers" -> ProviderOuts [] ph = "values" -> ValueOuts [] ph = "fields" -> FieldOutsSeq
NextPhase(ph) == CASE ph = "providers" -> "values" [] ph = "values" -> "fields" [] ph = "fields" -> "bindings"
MapLeafOut ==
  /\ pc \in {"providers", "values", "fields"}
  /\ LET s == PhaseSeq(pc)
         k == cur IN
     IF k <= Len(s)
     THEN Insert(s[k].t, ELeaf(s[k].t, s[k].k, s[k].i, s[k].n), SItem(s[k].j, s[k].n)) /\ cur' = cur + 1 /\ UNCHANGED pc
     ELSE /\ UNCHANGED <<pm, sm, mapErrs>>
          /\ IF pc = "fields" /\ mapErrs # {} THEN pc' = "mapfail" /\ cur' = 1      \* early return before the bindings
             ELSE pc' = NextPhase(pc) /\ cur' = 1
  /\ UNCHANGED impKeys /\ UNCH_L /\ UNCH_A /\ UNCH_S /\ UNCHANGED verdict

\* bindings last: the concrete type must already be in the map; the interface key aliases its entry
MapBinding ==
  /\ pc = "bindings"
  /\ IF cur <= Len(BindSeq)
     THEN LET b == P.leaves[BindSeq[cur].i] IN
          /\ IF b.iface \in DOMAIN sm THEN mapErrs' = mapErrs \cup {"ambiguous"} /\ UNCHANGED <<pm, sm>>
             ELSE IF b.conc \notin DOMAIN pm THEN mapErrs' = mapErrs \cup {"bind-concrete"} /\ UNCHANGED <<pm, sm>>
             ELSE pm' = Put(pm, b.iface, pm[b.conc]) /\ sm' = Put(sm, b.iface, SItem(BindSeq[cur].j, 0)) /\ UNCHANGED mapErrs
          /\ cur' = cur + 1 /\ UNCHANGED <<pc, roots>>
     ELSE /\ UNCHANGED <<pm, sm, mapErrs, cur>>
          /\ IF mapErrs # {} THEN pc' = "mapfail" /\ UNCHANGED roots
             ELSE /\ pc' = "acyclic"
                  \* every order of the roots when there are few of them (the real code sorts them by type string)
                  /\ roots' \in (IF FreeRootOrder /\ Cardinality(DOMAIN pm) <= 4
                                 THEN {s \in [1..Cardinality(DOMAIN pm) -> DOMAIN pm] : \A a, b \in DOMAIN s : a # b => s[a] # s[b]}
                                 ELSE {SetToSeq(DOMAIN pm), Reverse(SetToSeq(DOMAIN pm))})
  /\ visited' = {} /\ stk' = <<>> /\ cyc' = FALSE /\ pops' = 0 /\ UNCHANGED tpops
  /\ UNCHANGED impKeys /\ UNCH_L /\ UNCH_S /\ UNCHANGED verdict

MapFail ==
  /\ pc = "mapfail"
  /\ verdict' = IF "ambiguous" \in mapErrs THEN "ambiguous" ELSE "bind-concrete"
  /\ pc' = "end"
  /\ UNCHANGED <<pm, sm, mapErrs, cur, impKeys>> /\ UNCH_L /\ UNCH_A /\ UNCH_S

(* ---- verifyAcyclic --------------------------------------------------------- *)
\* what the search follows from a provided type: the provider's parameters / the field's parent (a binding is looked through)
ArgsOf(e) ==
  IF e.k = "func" THEN P.leaves[e.i].ins
  ELSE IF e.k = "struct" THEN SelTypes(P, P.leaves[e.i])
  ELSE IF e.k = "field" THEN <<P.leaves[e.i].parent>>
  ELSE <<>>
AcyStart ==
  /\ pc = "acyclic" /\ stk = <<>>
  /\ IF roots # <<>>
     THEN stk' = <<<<Head(roots)>>>> /\ roots' = Tail(roots) /\ UNCHANGED <<pc, cur>>
     ELSE /\ UNCHANGED <<stk, roots>>
          /\ IF cyc THEN pc' = "cycfail" /\ UNCHANGED cur
             ELSE pc' = "leveldone" /\ UNCHANGED cur
  /\ UNCHANGED <<visited, cyc, pops, tpops, pm, sm, mapErrs, impKeys>> /\ UNCH_L /\ UNCH_S /\ UNCHANGED verdict
AcyPop ==
  /\ pc = "acyclic" /\ stk # <<>>
  /\ LET trail == stk[Len(stk)]
         rest  == SubSeq(stk, 1, Len(stk) - 1)
         head  == trail[Len(trail)]
     IN /\ pops' = pops + 1
        /\ IF head \in visited \/ head \notin DOMAIN pm
           THEN stk' = rest /\ visited' = visited \cup {head} /\ UNCHANGED cyc
           ELSE LET as == ArgsOf(pm[head])
                    onTrail(a) == \E x \in DOMAIN trail : trail[x] = a
                    push == SelectSeq(as, LAMBDA a : ~onTrail(a))
                IN /\ visited' = visited \cup {head}
                   /\ cyc' = (cyc \/ \E x \in DOMAIN as : onTrail(as[x]))
                   /\ stk' = rest \o [x \in DOMAIN push |-> Append(trail, push[x])]
  /\ UNCHANGED <<roots, pc, cur, pm, sm, mapErrs, impKeys, tpops>> /\ UNCH_L /\ UNCH_S /\ UNCHANGED verdict
CycFail ==
  /\ pc = "cycfail" /\ verdict' = "cycle" /\ pc' = "end"
  /\ UNCHANGED <<pm, sm, mapErrs, cur, impKeys>> /\ UNCH_L /\ UNCH_A /\ UNCH_S

\* the level is a valid provider set: remember its map, go on with the next level or plan the injector
LevelDone ==
  /\ pc = "leveldone"
  /\ done' = Put(done, Lvl.set, [pm |-> pm])
  /\ IF li < Len(levels)
     THEN /\ li' = li + 1 /\ pc' = "args" /\ cur' = 1
          /\ pm' = EmptyF /\ sm' = EmptyF /\ mapErrs' = {} /\ impKeys' = {}
          /\ UNCH_S
     ELSE /\ pc' = "solve" /\ UNCHANGED <<li, cur, pm, sm, mapErrs, impKeys>>
          /\ sstk' = <<[t |-> inj.out, from |-> ""]>>
          /\ index' = [t \in ParamTypes(inj.params) |-> CHOOSE i \in DOMAIN inj.params : inj.params[i].type = t]
          /\ UNCHANGED <<calls, used, miss, spops>>
  /\ tpops' = tpops + pops /\ UNCHANGED <<P, inj, levels, roots, visited, stk, cyc, pops>> /\ UNCHANGED verdict

(* ---- solve ------------------------------------------------------------------- *)
NGiven == Len(inj.params)
SolvePop ==
  /\ pc = "solve" /\ sstk # <<>>
  /\ LET f    == sstk[Len(sstk)]
         rest == SubSeq(sstk, 1, Len(sstk) - 1)
         t    == f.t
     IN /\ spops' = spops + 1
        /\ IF t \in DOMAIN index THEN sstk' = rest /\ UNCHANGED <<index, calls, used, miss>>
           ELSE IF t \notin DOMAIN pm
           THEN sstk' = rest /\ index' = Put(index, t, 0) /\ miss' = miss \cup {t} /\ UNCHANGED <<calls, used>>
           ELSE LET e == pm[t] IN
                /\ used' = used \cup {sm[t]}
                /\ IF e.t # t                                   \* an interface binding: no call, alias the concrete type's step
                   THEN IF e.t \notin DOMAIN index
                        THEN sstk' = rest \o <<f, [t |-> e.t, from |-> t]>> /\ UNCHANGED <<index, calls, miss>>
                        ELSE sstk' = rest /\ index' = Put(index, t, index[e.t]) /\ UNCHANGED <<calls, miss>>
                   ELSE IF e.k = "arg" THEN sstk' = rest /\ UNCHANGED <<index, calls, miss>>
                   ELSE IF e.k \in {"func", "struct"}
                   THEN LET as   == ArgsOf(e)
                            todo == SelectSeq(Reverse(as), LAMBDA a : a \notin DOMAIN index)
                        IN IF todo # <<>>
                           THEN sstk' = rest \o <<f>> \o [x \in DOMAIN todo |-> [t |-> todo[x], from |-> t]] /\ UNCHANGED <<index, calls, miss>>
                           ELSE IF \E x \in DOMAIN as : index[as[x]] = 0
                                THEN sstk' = rest /\ index' = Put(index, t, 0) /\ UNCHANGED <<calls, miss>>
                                ELSE /\ sstk' = rest /\ index' = Put(index, t, NGiven + Len(calls) + 1)
                                     /\ calls' = Append(calls, [kind |-> e.k, leaf |-> e.i, out |-> t, args |-> [x \in DOMAIN as |-> index[as[x]]]])
                                     /\ UNCHANGED miss
                   ELSE IF e.k = "value"
                   THEN /\ sstk' = rest /\ index' = Put(index, t, NGiven + Len(calls) + 1)
                        /\ calls' = Append(calls, [kind |-> "value", leaf |-> e.i, out |-> t, args |-> <<>>]) /\ UNCHANGED miss
                   ELSE \* field
                        LET par == P.leaves[e.i].parent IN
                        IF par \notin DOMAIN index
                        THEN sstk' = rest \o <<f, [t |-> par, from |-> t]>> /\ UNCHANGED <<index, calls, miss>>
                        ELSE IF index[par] = 0
                             THEN sstk' = rest /\ index' = Put(index, t, 0) /\ UNCHANGED <<calls, miss>>
                             ELSE /\ sstk' = rest /\ index' = Put(index, t, NGiven + Len(calls) + 1)
                                  /\ calls' = Append(calls, [kind |-> "field", leaf |-> e.i, out |-> t, args |-> <<index[par]>>]) /\ UNCHANGED miss
  /\ UNCHANGED <<pc, cur, pm, sm, mapErrs, impKeys>> /\ UNCH_L /\ UNCH_A /\ UNCHANGED verdict

\* verifyArgsUsed: every direct item (every listed field of a FieldsOf item) must be the source of some visited type
DirectSources ==
  {SItem(j, 0) : j \in {x \in DOMAIN LItems : ~(LItems[x].k = "leaf" /\ P.leaves[LItems[x].i].k = "fields")}}
  \cup UNION {{SItem(j, n) : n \in DOMAIN P.leaves[LItems[j].i].names} : j \in {x \in DOMAIN LItems : LItems[x].k = "leaf" /\ P.leaves[LItems[x].i].k = "fields"}}
SolveEnd ==
  /\ pc = "solve" /\ sstk = <<>>
  /\ verdict' = IF miss # {} THEN "missing"
                ELSE IF DirectSources \ used # {} THEN "unused"
                ELSE IF \E c \in Range(calls) : c.kind = "func" /\ ((HasEr(P.leaves[c.leaf]) /\ ~HasEr(inj)) \/ (HasCl(P.leaves[c.leaf]) /\ ~HasCl(inj))) THEN "needs"
                ELSE "accept"
  /\ pc' = "end"
  /\ PrintT(<<"WORK", P.key, inj.name, tpops, spops>>)      \* the iteration counts this run of the machine predicts for the real loops
  /\ (verdict' # "accept" \/ PrintT(<<"PLAN", P.key, inj.name, ToJson([a \in DOMAIN SelectSeq(calls, LAMBDA c : c.kind = "func") |->
                                      P.leaves[SelectSeq(calls, LAMBDA c : c.kind = "func")[a].leaf].name])>>))   \* the order of provider calls it plans
  /\ UNCHANGED <<cur, pm, sm, mapErrs, impKeys>> /\ UNCH_L /\ UNCH_A /\ UNCH_S

Next == MapArg \/ MapImportNext \/ MapImportKey \/ MapLeafOut \/ MapBinding \/ MapFail \/ AcyStart \/ AcyPop \/ CycFail \/ LevelDone \/ SolvePop \/ SolveEnd
Spec == Init /\ [][Next]_vars /\ WF_vars(Next)

(* ---- refinement of WireSem, work bounds, termination ------------------------- *)
\* the type a binding chain ends in (a binding aliases the entry of its concrete type)
RECURSIVE ResolveBind(_, _, _)
ResolveBind(items, params, t) ==
  LET u == UltSrc(P, items, params, t) IN
  IF u.k = "leaf" /\ P.leaves[u.i].k = "bind" THEN ResolveBind(items, params, P.leaves[u.i].conc) ELSE t
Canon0(t) == ResolveBind(LItems, LParams, t)
CanonT(t) == ResolveBind(inj.items, inj.params, t)
AtLevelEnd == pc \in {"mapfail", "acyclic", "cycfail", "leveldone"}
\* buildProviderMap fails exactly when the level is ambiguous or a binding lacks its concrete type; otherwise it provides exactly Provided
MapRefines ==
  /\ pc = "mapfail" => (AmbiguousTypes(P, LItems, LParams) # {} \/ BindMissingConcrete(P, LItems, LParams) # {})
  /\ pc \in {"acyclic", "leveldone"} =>
       /\ AmbiguousTypes(P, LItems, LParams) = {} /\ BindMissingConcrete(P, LItems, LParams) = {}
       /\ DOMAIN pm = Provided(P, LItems, LParams)
       /\ \A t \in DOMAIN pm : LET u == UltSrc(P, LItems, LParams, Canon0(t)) IN
              IF u.k = "param" THEN pm[t].k = "arg" /\ pm[t].i = u.i ELSE pm[t].i = u.i /\ pm[t].k # "arg"
\* the cycle search answers exactly HasCycle
AcyclicRefines ==
  /\ pc = "cycfail" => CyclicTypes(P, LItems, LParams) # {}
  /\ pc = "leveldone" => CyclicTypes(P, LItems, LParams) = {}
\* ... with work linear in the graph: every trail pushed is an edge out of a type visited for the first time
EdgeCount == SumSeq([k \in 1..Cardinality(DOMAIN pm) |-> Len(ArgsOf(pm[SetToSeq(DOMAIN pm)[k]]))])
AcyclicWork == pc \in {"acyclic", "cycfail", "leveldone"} => pops <= Cardinality(DOMAIN pm) + EdgeCount
\* the planner's verdict is the one the semantics gives
SemClass ==
  LET r == Reasons(P, inj) IN
  IF r = {} THEN {"accept"}
  ELSE {IF x \in {"need-err", "need-cleanup"} THEN "needs" ELSE x : x \in r}
SolveRefines == verdict # "" =>
  /\ Verdict(P, inj) = "yes" => verdict = "accept"
  /\ Verdict(P, inj) = "no" => (verdict # "accept" /\ verdict \in SemClass)
  /\ Verdict(P, inj) = "free" => verdict \in {"accept", "unused"}       \* partially used FieldsOf lists: the code says unused
  /\ verdict = "missing" => miss \subseteq Missing(P, inj) /\ miss # {}
\* the plan: dependencies before dependents, every needed provider function exactly once, arguments wired to the designated sources
PlanCorrect == verdict = "accept" =>
  /\ \A a \in DOMAIN calls : \A x \in DOMAIN calls[a].args : calls[a].args[x] < NGiven + a
  /\ {calls[a].leaf : a \in {b \in DOMAIN calls : calls[b].kind = "func"}} = NeededFuncs(P, inj)
  /\ \A a, b \in DOMAIN calls : (a # b /\ calls[a].kind = "func" /\ calls[b].kind = "func") => calls[a].leaf # calls[b].leaf
  /\ \A a \in DOMAIN calls : calls[a].kind = "func" =>
        \A x \in DOMAIN calls[a].args :
           LET want == UltSrc(P, inj.items, inj.params, CanonT(P.leaves[calls[a].leaf].ins[x]))
               got  == calls[a].args[x]
           IN IF want.k = "param" THEN got = want.i
              ELSE got > NGiven /\ calls[got - NGiven].leaf = want.i
  /\ index[inj.out] # 0
\* the planner visits every type a bounded number of times
SolveWork == spops <= 1 + 3 * (Cardinality(DOMAIN pm) + EdgeCount + 1)
Termination == <>(pc = "end")
=============================================================================
