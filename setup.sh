#!/bin/sh
# Offline setup: nothing to fetch. Warm the Go build cache for the wire binary and check the tools.
export GOFLAGS=-mod=mod GOPROXY=off GOSUMDB=off GOTOOLCHAIN=local
set -e
cd "$(dirname "$0")"
command -v tlc >/dev/null
command -v python3 >/dev/null
T=$(mktemp -d)
(cd /repo && go build -tags verif -o "$T/wire" ./cmd/wire)
rm -rf "$T"
mkdir -p evidence
echo setup ok
